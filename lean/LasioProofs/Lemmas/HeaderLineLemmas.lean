import LasioModel.HeaderLine
/-
Helper lemmas for C04 (header-line round trip): `firstSome` search, `takeWhile/dropWhile` splits,
`shrinks` backtracking, `colonSplits`, `findDotDot`, `strip` under padding, and the pattern
configuration on lines that have a period before the first colon.
-/
namespace Lasio

/-! ### `firstSome` -/

theorem firstSome_head {α β} (a : α) (as : List α) (f : α → Option β) (b : β)
    (h : f a = some b) : firstSome (a :: as) f = some b := by
  simp [firstSome, h]

theorem firstSome_cons_none {α β} (a : α) (as : List α) (f : α → Option β)
    (h : f a = none) : firstSome (a :: as) f = firstSome as f := by
  simp [firstSome, h]

theorem firstSome_nil {α β} (f : α → Option β) : firstSome [] f = none := rfl

theorem firstSome_singleton {α β} (a : α) (f : α → Option β) : firstSome [a] f = f a := by
  cases h : f a <;> simp [firstSome, h]

theorem firstSome_map {α β γ} (l : List α) (φ : α → γ) (g : γ → Option β) :
    firstSome (l.map φ) g = firstSome l (fun a => g (φ a)) := by
  induction l with
  | nil => rfl
  | cons a l ih => simp only [List.map_cons, firstSome, ih]

theorem firstSome_all_none {α β} (l : List α) (f : α → Option β)
    (h : ∀ a ∈ l, f a = none) : firstSome l f = none := by
  induction l with
  | nil => rfl
  | cons a l ih =>
    rw [firstSome_cons_none _ _ _ (h a (by simp))]
    exact ih (fun x hx => h x (by simp [hx]))

theorem firstSome_append_none {α β} (l₁ l₂ : List α) (f : α → Option β)
    (h : firstSome l₁ f = none) : firstSome (l₁ ++ l₂) f = firstSome l₂ f := by
  induction l₁ with
  | nil => rfl
  | cons a l ih =>
    cases ha : f a with
    | none =>
      rw [firstSome_cons_none _ _ _ ha] at h
      rw [List.cons_append, firstSome_cons_none _ _ _ ha]; exact ih h
    | some b => simp [firstSome, ha] at h

theorem firstSome_append_some {α β} (l₁ l₂ : List α) (f : α → Option β) (b : β)
    (h : firstSome l₁ f = some b) : firstSome (l₁ ++ l₂) f = some b := by
  induction l₁ with
  | nil => simp [firstSome] at h
  | cons a l ih =>
    cases ha : f a with
    | none =>
      rw [firstSome_cons_none _ _ _ ha] at h
      rw [List.cons_append, firstSome_cons_none _ _ _ ha]; exact ih h
    | some b' =>
      rw [firstSome_head _ _ _ _ ha] at h
      rw [List.cons_append, firstSome_head _ _ _ _ ha]; exact h

/-! ### `takeWhile` / `dropWhile` splits -/

theorem takeWhile_append_stop {p : Char → Bool} (a : Str) (c : Char) (b : Str)
    (ha : ∀ x ∈ a, p x = true) (hc : p c = false) :
    (a ++ c :: b).takeWhile p = a ∧ (a ++ c :: b).dropWhile p = c :: b := by
  induction a with
  | nil => simp [hc]
  | cons x a ih =>
    have hx : p x = true := ha x (by simp)
    have := ih (fun y hy => ha y (by simp [hy]))
    simp [hx, this]

theorem takeWhile_all {p : Char → Bool} (a : Str) (ha : ∀ x ∈ a, p x = true) :
    a.takeWhile p = a ∧ a.dropWhile p = [] := by
  induction a with
  | nil => simp
  | cons x a ih =>
    have hx : p x = true := ha x (by simp)
    have := ih (fun y hy => ha y (by simp [hy]))
    simp [hx, this]

theorem takeWhile_append_all {p : Char → Bool} (a b : Str) (ha : ∀ x ∈ a, p x = true) :
    (a ++ b).takeWhile p = a ++ b.takeWhile p ∧ (a ++ b).dropWhile p = b.dropWhile p := by
  induction a with
  | nil => simp
  | cons x a ih =>
    have hx : p x = true := ha x (by simp)
    have := ih (fun y hy => ha y (by simp [hy]))
    simp [hx, this]

theorem dropWhile_eq_nil {p : Char → Bool} (a : Str) (h : a.dropWhile p = []) :
    ∀ x ∈ a, p x = true := by
  induction a with
  | nil => simp
  | cons x a ih =>
    by_cases hx : p x = true
    · simp only [List.dropWhile_cons, hx, ↓reduceIte] at h
      intro y hy
      rcases List.mem_cons.mp hy with rfl | hy
      · exact hx
      · exact ih h y hy
    · simp [hx] at h

/-! ### `shrinks` -/

theorem shrinks_head (run rest : Str) : ∃ tl, shrinks run rest = (run, rest) :: tl := by
  unfold shrinks
  rw [List.range_succ]
  simp

theorem shrinks_nil (rest : Str) : shrinks [] rest = [([], rest)] := by
  simp [shrinks]

theorem shrinks_concat (run : Str) (c : Char) (rest : Str) :
    shrinks (run ++ [c]) rest = (run ++ [c], rest) :: shrinks run (c :: rest) := by
  unfold shrinks
  have hlen : (run ++ [c]).length + 1 = (run.length + 1) + 1 := by simp
  rw [hlen, List.range_succ (n := run.length + 1), List.reverse_append, List.reverse_singleton,
    List.singleton_append, List.map_cons]
  congr 1
  · have : run.length + 1 = (run ++ [c]).length := by simp
    rw [this, List.take_length, List.drop_length]; simp
  · apply List.map_congr_left
    intro k hk
    have hk' : k ≤ run.length := by
      have := List.mem_range.mp (List.mem_reverse.mp hk); omega
    rw [List.take_append_of_le_length hk', List.drop_append_of_le_length hk']
    simp

/-- captures longer than `u` on which the continuation fails are skipped by the backtracking search -/
theorem firstSome_shrinks_skip {β} (u x y : Str) (g : Str × Str → Option β)
    (h : ∀ x1 x2, x = x1 ++ x2 → x1 ≠ [] → g (u ++ x1, x2 ++ y) = none) :
    firstSome (shrinks (u ++ x) y) g = firstSome (shrinks u (x ++ y)) g := by
  suffices H : ∀ (xr : Str) (y : Str),
      (∀ x1 x2, xr.reverse = x1 ++ x2 → x1 ≠ [] → g (u ++ x1, x2 ++ y) = none) →
      firstSome (shrinks (u ++ xr.reverse) y) g = firstSome (shrinks u (xr.reverse ++ y)) g by
    have := H x.reverse y (by simpa using h)
    simpa using this
  intro xr
  induction xr with
  | nil => intro y _; simp
  | cons c xr ih =>
    intro y h
    rw [List.reverse_cons, ← List.append_assoc, shrinks_concat]
    have h0 : g (u ++ xr.reverse ++ [c], y) = none := by
      have := h (xr.reverse ++ [c]) [] (by simp) (by simp)
      simpa using this
    rw [firstSome_cons_none _ _ _ h0, ih (c :: y)]
    · simp
    · intro x1 x2 hx hne
      have := h x1 (x2 ++ [c]) (by simp [hx]) hne
      simpa using this

/-! ### `colonSplits` -/

theorem colonSplits_nocolon (s : Str) (h : ∀ c ∈ s, c ≠ ':') : colonSplits s = [] := by
  induction s with
  | nil => rfl
  | cons c s ih =>
    have hc : c ≠ ':' := h c (by simp)
    simp [colonSplits, hc, ih (fun y hy => h y (by simp [hy]))]

theorem colonSplits_append (a b : Str) :
    colonSplits (a ++ b) =
      (colonSplits a).map (fun vr => (vr.1, vr.2 ++ b)) ++
      (colonSplits b).map (fun vr => (a ++ vr.1, vr.2)) := by
  induction a with
  | nil => simp [colonSplits]
  | cons c a ih =>
    simp only [List.cons_append, colonSplits, ih]
    by_cases hc : c = ':' <;> simp [hc, Function.comp_def]

/-- the last colon split of `A : D` when `D` has no colon -/
theorem colonSplits_last (A D : Str) (hD : ∀ c ∈ D, c ≠ ':') :
    colonSplits (A ++ ':' :: D) =
      (colonSplits A).map (fun vr => (vr.1, vr.2 ++ ':' :: D)) ++ [(A, D)] := by
  rw [colonSplits_append]
  simp [colonSplits, colonSplits_nocolon D hD]

theorem valueGreedyColon_last (A D : Str) (hD : ∀ c ∈ D, c ≠ ':') :
    ∃ tl, valueGreedyColon (A ++ ':' :: D) = (some A, D) :: tl := by
  unfold valueGreedyColon
  rw [colonSplits_last A D hD]
  simp

theorem valueGreedyColon_nocolon (s : Str) (h : ∀ c ∈ s, c ≠ ':') : valueGreedyColon s = [] := by
  simp [valueGreedyColon, colonSplits_nocolon s h]

theorem rfindColon_last (A D : Str) (hD : ∀ c ∈ D, c ≠ ':') :
    rfindColon (A ++ ':' :: D) = some A.length := by
  unfold rfindColon
  rw [colonSplits_last A D hD]
  simp

/-! ### `findDotDot` -/

theorem findDotDot_cons (c : Char) (s : Str) :
    findDotDot (c :: s) =
      if c = '.' ∧ s.head? = some '.' then some 0 else (findDotDot s).map (· + 1) := by
  cases s with
  | nil =>
    by_cases hc : c = '.'
    · subst hc; simp [findDotDot]
    · simp [findDotDot]
  | cons d s =>
    by_cases hc : c = '.'
    · by_cases hd : d = '.'
      · subst hc; subst hd; simp [findDotDot]
      · subst hc
        have : findDotDot ('.' :: d :: s) = (findDotDot (d :: s)).map (· + 1) := by
          rw [findDotDot]; intro t _ h; exact hd (by simp at h; exact h.1)
        simp [this, hd]
    · have : findDotDot (c :: d :: s) = (findDotDot (d :: s)).map (· + 1) := by
        rw [findDotDot]; intro t h _; exact hc h
      simp [this, hc]

theorem findDotDot_nodot (s : Str) (h : ∀ c ∈ s, c ≠ '.') : findDotDot s = none := by
  induction s with
  | nil => rfl
  | cons c s ih =>
    have hc : c ≠ '.' := h c (by simp)
    rw [findDotDot_cons]
    simp [hc, ih (fun y hy => h y (by simp [hy]))]

/-- no ".." in `a`, none across the seam: the first ".." of `a ++ b` is the first one of `b` -/
theorem findDotDot_append_shift (a b : Str) (ha : findDotDot a = none)
    (hseam : ¬ (a.getLast? = some '.' ∧ b.head? = some '.')) :
    findDotDot (a ++ b) = (findDotDot b).map (· + a.length) := by
  induction a with
  | nil => simp
  | cons c a ih =>
    rw [findDotDot_cons] at ha
    split at ha
    · simp at ha
    · rename_i hc
      have ha' : findDotDot a = none := by simpa using ha
      cases a with
      | nil =>
        have : ¬ (c = '.' ∧ b.head? = some '.') := by simpa using hseam
        simp [findDotDot_cons, this]
      | cons d a =>
        have hseam' : ¬ ((d :: a).getLast? = some '.' ∧ b.head? = some '.') := by
          simpa [List.getLast?_cons_cons] using hseam
        have hc' : ¬ (c = '.' ∧ d = '.') := by simpa using hc
        rw [List.cons_append, findDotDot_cons, ih ha' hseam']
        simp only [List.cons_append, List.head?_cons, Option.some.injEq, hc', ↓reduceIte,
          Option.map_map, List.length_cons]
        congr 1

theorem findDotDot_append_none (a b : Str) (ha : findDotDot a = none) (hb : findDotDot b = none)
    (hseam : ¬ (a.getLast? = some '.' ∧ b.head? = some '.')) :
    findDotDot (a ++ b) = none := by
  rw [findDotDot_append_shift a b ha hseam, hb]; rfl

/-! ### `strip` under padding -/

theorem lstrip_allspace (a : Str) (ha : ∀ c ∈ a, isPySpace c = true) : lstrip a = [] :=
  (takeWhile_all a ha).2

theorem rstrip_append_allspace (s b : Str) (hb : ∀ c ∈ b, isPySpace c = true) :
    rstrip (s ++ b) = rstrip s := by
  unfold rstrip
  rw [List.reverse_append, (takeWhile_append_all b.reverse s.reverse (by simpa using hb)).2]

/-- padding on both sides disappears under `strip` -/
theorem strip_pad (a s b : Str) (ha : ∀ c ∈ a, isPySpace c = true)
    (hb : ∀ c ∈ b, isPySpace c = true) : strip (a ++ s ++ b) = strip s := by
  unfold strip
  have h1 : lstrip (a ++ s ++ b) = lstrip (s ++ b) := by
    unfold lstrip; rw [List.append_assoc]; exact (takeWhile_append_all a (s ++ b) ha).2
  rw [h1]
  have h2 : lstrip (s ++ b) = if (lstrip s).isEmpty then lstrip b else lstrip s ++ b := by
    unfold lstrip; exact List.dropWhile_append
  rw [h2]
  split
  · rename_i he
    have : lstrip s = [] := by simpa using he
    rw [this, lstrip_allspace b hb]
  · exact rstrip_append_allspace _ _ hb

theorem strip_nospace (s : Str) (h : ∀ c ∈ s, isPySpace c = false) : strip s = s := by
  have hl : lstrip s = s := by
    unfold lstrip
    cases s with
    | nil => rfl
    | cons c s => simp [h c (by simp)]
  unfold strip
  rw [hl]
  unfold rstrip
  cases hr : s.reverse with
  | nil => have : s = [] := by simpa using hr
           simp [this]
  | cons c r =>
    have hc : isPySpace c = false := h c (by
      have : c ∈ s.reverse := by rw [hr]; simp
      simpa using this)
    simp only [List.dropWhile_cons, hc]
    rw [← hr]; simp

theorem strip_nil : strip [] = [] := rfl

/-! ### character facts -/

theorem isAsciiDigit_range (c : Char) (h : isAsciiDigit c = true) :
    48 ≤ c.toNat ∧ c.toNat ≤ 57 := by
  unfold isAsciiDigit at h
  rw [Bool.and_eq_true, decide_eq_true_eq, decide_eq_true_eq] at h
  have h1 := UInt32.le_iff_toNat_le.mp (Char.le_def.mp h.1)
  have h2 := UInt32.le_iff_toNat_le.mp (Char.le_def.mp h.2)
  have e1 : '0'.val.toNat = 48 := by decide
  have e2 : '9'.val.toNat = 57 := by decide
  rw [e1] at h1; rw [e2] at h2
  exact ⟨h1, h2⟩

theorem isAsciiDigit_not_space (c : Char) (h : isAsciiDigit c = true) : isPySpace c = false := by
  have h' := isAsciiDigit_range c h
  unfold isPySpace
  simp only [Bool.or_eq_false_iff, Bool.and_eq_false_iff, decide_eq_false_iff_not,
    beq_eq_false_iff_ne]
  omega

/-- blank or TAB -/
def IsBlank (c : Char) : Prop := c = ' ' ∨ c = '\t'

theorem IsBlank.space {c : Char} (h : IsBlank c) : isPySpace c = true := by
  rcases h with rfl | rfl <;> decide
theorem IsBlank.ne_dot {c : Char} (h : IsBlank c) : c ≠ '.' := by
  rcases h with rfl | rfl <;> decide
theorem IsBlank.ne_colon {c : Char} (h : IsBlank c) : c ≠ ':' := by
  rcases h with rfl | rfl <;> decide
theorem IsBlank.not_digit {c : Char} (h : IsBlank c) : isAsciiDigit c = false := by
  rcases h with rfl | rfl <;> decide

/-! ### fragments -/

theorem dotStarts_of_head (s : Str) (h : s.head? ≠ some '.') : dotStarts s = [s] := by
  unfold dotStarts
  split
  · simp at h
  · rfl

theorem splitFirst_append (ch : Char) (a r : Str) (ha : ∀ c ∈ a, c ≠ ch) :
    splitFirst ch (a ++ ch :: r) = some (a, r) := by
  obtain ⟨h1, h2⟩ := takeWhile_append_stop (p := (· != ch)) a ch r
    (by intro x hx; simpa using ha x hx) (by simp)
  simp only [splitFirst, h1, h2]

theorem splitFirst_none (ch : Char) (s : Str) (h : ∀ c ∈ s, c ≠ ch) : splitFirst ch s = none := by
  obtain ⟨_, h2⟩ := takeWhile_all (p := (· != ch)) s (by intro x hx; simpa using h x hx)
  simp only [splitFirst, h2]

/-- the name fragment on `a . r` when `a` is non-empty and period-free: a single alternative -/
theorem nameDefault_split (a r : Str) (hne : a ≠ []) (ha : ∀ c ∈ a, c ≠ '.') :
    nameDefault (a ++ '.' :: r) = [(some a, r)] := by
  have hhead : (a ++ '.' :: r).head? ≠ some '.' := by
    cases a with
    | nil => exact absurd rfl hne
    | cons c a => simpa using ha c (by simp)
  simp [nameDefault, dotStarts_of_head _ hhead, splitFirst_append '.' a r ha]

/-- the optional numeric group `([0-9]+\s)?` of the unit fragment applies: digits, one white-space
character, a run of non-space characters, then white space -/
theorem unitDefault_group (ds : Str) (b1 : Char) (sfx : Str) (b2 : Char) (t : Str)
    (hne : ds ≠ []) (hd : ∀ c ∈ ds, isAsciiDigit c = true)
    (h1 : isPySpace b1 = true) (hsfx : ∀ c ∈ sfx, isPySpace c = false) (h2 : isPySpace b2 = true) :
    ∃ tl, unitDefault (ds ++ b1 :: (sfx ++ b2 :: t)) = (some (ds ++ b1 :: sfx), b2 :: t) :: tl := by
  have hb1 : isAsciiDigit b1 = false := by
    cases h : isAsciiDigit b1 with
    | false => rfl
    | true => rw [isAsciiDigit_not_space b1 h] at h1; exact absurd h1 (by simp)
  obtain ⟨e1, e2⟩ := takeWhile_append_stop (p := isAsciiDigit) ds b1 (sfx ++ b2 :: t) hd hb1
  obtain ⟨e3, e4⟩ := takeWhile_append_stop (p := fun c => !isPySpace c) sfx b2 t
    (by intro x hx; simp [hsfx x hx]) (by simp [h2])
  obtain ⟨tl, htl⟩ := shrinks_head sfx (b2 :: t)
  unfold unitDefault
  simp only [e1, e2]
  cases ds with
  | nil => exact absurd rfl hne
  | cons d ds' =>
    simp only [e3, e4, h1, htl, ↓reduceIte, List.map_cons, List.cons_append]
    exact ⟨_, rfl⟩

/-- the optional numeric group does not apply -/
theorem unitDefault_nogroup (s : Str)
    (h : s.takeWhile isAsciiDigit = [] ∨ s.dropWhile isAsciiDigit = [] ∨
      ∃ c tl, s.dropWhile isAsciiDigit = c :: tl ∧ isPySpace c = false) :
    unitDefault s =
      (shrinks (s.takeWhile (fun c => !isPySpace c)) (s.dropWhile (fun c => !isPySpace c))).map
        fun ar => (some ar.1, ar.2) := by
  unfold unitDefault
  rcases h with h | h | ⟨c, tl, h, hc⟩
  · simp only [h, List.nil_append]
  · simp only [h]
    cases s.takeWhile isAsciiDigit <;> simp
  · simp only [h]
    cases s.takeWhile isAsciiDigit <;> simp [hc]

/-! ### pattern configuration -/

/-- outside ~Parameter, a line with a period before its first colon, whose first ".." (if any) is not
before the last colon when the section is ~Curves, gets the single default pattern -/
theorem configurePatterns_default (line : Str) (sec : SecName) (hsec : sec ≠ .parameter)
    (hcolon : ':' ∈ line) (hdot : '.' ∈ line.takeWhile (· != ':'))
    (hcurves : sec = .curves → ∀ dd dc, findDotDot line = some dd → rfindColon line = some dc →
      ¬ dd < dc) :
    configurePatterns line sec = [⟨.dflt, .dflt, .greedyColon, .rest⟩] := by
  have h1 : line.contains ':' = true := List.contains_iff_mem.mpr hcolon
  have h2 : (line.takeWhile (· != ':')).contains '.' = true := List.contains_iff_mem.mpr hdot
  have h3 : (sec == SecName.parameter) = false := by simpa using hsec
  unfold configurePatterns
  simp only [h1, h2, h3, Bool.not_true, Bool.and_false, Bool.false_eq_true, ↓reduceIte,
    List.nil_append]
  congr 2
  split
  · rename_i hc
    have hcv : sec = .curves := by
      rw [Bool.and_eq_true] at hc; simpa using hc.2
    split
    · rename_i dd dc hdd hdc
      rw [if_neg (hcurves hcv dd dc hdd hdc)]
    · rfl
  · rfl

/-- in ~Parameter, a line with a period before its first colon gets the clock-time pattern first and
the default pattern second -/
theorem configurePatterns_parameter (line : Str)
    (hcolon : ':' ∈ line) (hdot : '.' ∈ line.takeWhile (· != ':')) :
    configurePatterns line .parameter =
      [⟨.dflt, .dflt, .time, .rest⟩, ⟨.dflt, .dflt, .greedyColon, .rest⟩] := by
  have h1 : line.contains ':' = true := List.contains_iff_mem.mpr hcolon
  have h2 : (line.takeWhile (· != ':')).contains '.' = true := List.contains_iff_mem.mpr hdot
  unfold configurePatterns
  simp only [h1, h2, Bool.not_true, Bool.and_false, Bool.false_eq_true, ↓reduceIte]
  simp

/-! ### the unit fragment as a search -/

theorem shrinks_mem (run rest a r : Str) (h : (a, r) ∈ shrinks run rest) : a ++ r = run ++ rest := by
  unfold shrinks at h
  obtain ⟨k, _, hk⟩ := List.mem_map.mp h
  have h1 : a = run.take k := (Prod.mk.inj hk).1.symm
  have h2 : r = run.drop k ++ rest := (Prod.mk.inj hk).2.symm
  rw [h1, h2, ← List.append_assoc, List.take_append_drop]

/-- every alternative of the unit fragment splits its input -/
theorem unitDefault_mem (s : Str) (u : Option Str) (r : Str) (h : (u, r) ∈ unitDefault s) :
    ∃ X, s = X ++ r := by
  unfold unitDefault at h
  rcases List.mem_append.mp h with h | h
  · have hs := List.takeWhile_append_dropWhile (p := isAsciiDigit) (l := s)
    revert h
    cases hd : s.takeWhile isAsciiDigit with
    | nil => simp
    | cons d ds =>
      cases ha : s.dropWhile isAsciiDigit with
      | nil => simp
      | cons sp tl =>
        simp only
        split
        · intro h
          obtain ⟨⟨a, r'⟩, har, he⟩ := List.mem_map.mp h
          have := shrinks_mem _ _ _ _ har
          rw [List.takeWhile_append_dropWhile] at this
          have hr : r' = r := (Prod.mk.inj he).2
          subst hr
          refine ⟨d :: ds ++ sp :: a, ?_⟩
          rw [← hs, hd, ha, ← this]; simp
        · simp
  · obtain ⟨⟨a, r'⟩, har, he⟩ := List.mem_map.mp h
    have := shrinks_mem _ _ _ _ har
    rw [List.takeWhile_append_dropWhile] at this
    have hr : r' = r := (Prod.mk.inj he).2
    subst hr
    exact ⟨a, this.symm⟩

/-- shapes of the text captured by the unit fragment: either a run of non-space characters on which
the optional numeric group cannot apply, or `digits white-space non-space-run` (the group applies) -/
def UnitCap (cap T : Str) : Prop :=
  ((∀ c ∈ cap, isPySpace c = false) ∧
    ((∃ c ∈ cap, isAsciiDigit c = false) ∨
      ∀ c, T.head? = some c → isAsciiDigit c = false ∧ (cap = [] ∨ isPySpace c = false))) ∨
  ∃ ds b1 u, cap = ds ++ b1 :: u ∧ ds ≠ [] ∧ (∀ c ∈ ds, isAsciiDigit c = true) ∧
    isPySpace b1 = true ∧ ∀ c ∈ u, isPySpace c = false

theorem unitDefault_search_plain {β} (unit T : Str) (g : Option Str × Str → Option β) (b : β)
    (hu : ∀ c ∈ unit, isPySpace c = false)
    (hng : (∃ c ∈ unit, isAsciiDigit c = false) ∨
      ∀ c, T.head? = some c → isAsciiDigit c = false ∧ (unit = [] ∨ isPySpace c = false))
    (hback : ∀ x1 x2, T.takeWhile (fun c => !isPySpace c) = x1 ++ x2 → x1 ≠ [] →
      g (some (unit ++ x1), x2 ++ T.dropWhile (fun c => !isPySpace c)) = none)
    (hok : g (some unit, T) = some b) :
    firstSome (unitDefault (unit ++ T)) g = some b := by
  have hcond : (unit ++ T).takeWhile isAsciiDigit = [] ∨ (unit ++ T).dropWhile isAsciiDigit = [] ∨
      ∃ c tl, (unit ++ T).dropWhile isAsciiDigit = c :: tl ∧ isPySpace c = false := by
    by_cases hall : ∀ c ∈ unit, isAsciiDigit c = true
    · have hT : ∀ c, T.head? = some c → isAsciiDigit c = false ∧ (unit = [] ∨ isPySpace c = false) := by
        rcases hng with ⟨c, hc, hcd⟩ | h
        · rw [hall c hc] at hcd; exact absurd hcd (by simp)
        · exact h
      obtain ⟨e1, e2⟩ := takeWhile_append_all (p := isAsciiDigit) unit T hall
      cases T with
      | nil => right; left; rw [e2]; rfl
      | cons t T =>
        obtain ⟨ht1, ht2⟩ := hT t (by simp)
        rcases ht2 with rfl | ht2
        · left; simp [ht1]
        · right; right
          exact ⟨t, T, by rw [e2]; simp [ht1], ht2⟩
    · right; right
      have hne : unit.dropWhile isAsciiDigit ≠ [] := fun h => hall (dropWhile_eq_nil unit h)
      cases hdw : unit.dropWhile isAsciiDigit with
      | nil => exact absurd hdw hne
      | cons d tl =>
        refine ⟨d, tl ++ T, ?_, ?_⟩
        · rw [List.dropWhile_append, hdw]; simp
        · apply hu
          have : d ∈ unit.dropWhile isAsciiDigit := by rw [hdw]; simp
          exact (List.dropWhile_suffix _).subset this
  rw [unitDefault_nogroup _ hcond, firstSome_map]
  obtain ⟨e1, e2⟩ := takeWhile_append_all (p := fun c => !isPySpace c) unit T
    (by intro x hx; simp [hu x hx])
  rw [e1, e2, firstSome_shrinks_skip unit _ _ _ hback, List.takeWhile_append_dropWhile]
  obtain ⟨tl, htl⟩ := shrinks_head unit T
  rw [htl]
  exact firstSome_head _ _ _ _ hok

theorem unitDefault_search_group {β} (ds : Str) (b1 : Char) (u T : Str)
    (g : Option Str × Str → Option β) (b : β)
    (hne : ds ≠ []) (hd : ∀ c ∈ ds, isAsciiDigit c = true) (h1 : isPySpace b1 = true)
    (hu : ∀ c ∈ u, isPySpace c = false)
    (hback : ∀ x1 x2, T.takeWhile (fun c => !isPySpace c) = x1 ++ x2 → x1 ≠ [] →
      g (some (ds ++ b1 :: u ++ x1), x2 ++ T.dropWhile (fun c => !isPySpace c)) = none)
    (hok : g (some (ds ++ b1 :: u), T) = some b) :
    firstSome (unitDefault (ds ++ b1 :: u ++ T)) g = some b := by
  have hb1 : isAsciiDigit b1 = false := by
    cases h : isAsciiDigit b1 with
    | false => rfl
    | true => rw [isAsciiDigit_not_space b1 h] at h1; exact absurd h1 (by simp)
  have hrw : ds ++ b1 :: u ++ T = ds ++ b1 :: (u ++ T) := by simp
  obtain ⟨e1, e2⟩ := takeWhile_append_stop (p := isAsciiDigit) ds b1 (u ++ T) hd hb1
  obtain ⟨e3, e4⟩ := takeWhile_append_all (p := fun c => !isPySpace c) u T
    (by intro x hx; simp [hu x hx])
  rw [hrw]
  unfold unitDefault
  simp only [e1, e2]
  cases ds with
  | nil => exact absurd rfl hne
  | cons d ds' =>
    simp only [h1, ↓reduceIte, e3, e4]
    apply firstSome_append_some
    rw [firstSome_map]
    rw [firstSome_shrinks_skip u _ _ _ (by
      intro x1 x2 hx hx1
      have := hback x1 x2 hx hx1
      simpa using this), List.takeWhile_append_dropWhile]
    obtain ⟨tl, htl⟩ := shrinks_head u T
    rw [htl]
    exact firstSome_head _ _ _ _ hok

/-- the unit fragment on `cap ++ T`: the search stops at the capture `cap` when the continuation
succeeds there and fails on every longer capture -/
theorem unitDefault_stage {β} (cap T : Str) (g : Option Str × Str → Option β) (b : β)
    (hcap : UnitCap cap T)
    (hback : ∀ x1 x2, T.takeWhile (fun c => !isPySpace c) = x1 ++ x2 → x1 ≠ [] →
      g (some (cap ++ x1), x2 ++ T.dropWhile (fun c => !isPySpace c)) = none)
    (hok : g (some cap, T) = some b) :
    firstSome (unitDefault (cap ++ T)) g = some b := by
  rcases hcap with ⟨hu, hng⟩ | ⟨ds, b1, u, rfl, hne, hd, h1, hu⟩
  · exact unitDefault_search_plain cap T g b hu hng hback hok
  · exact unitDefault_search_group ds b1 u T g b hne hd h1 hu hback hok

/-- in `V : D` with `V` empty or starting with white space, a non-empty non-space run at the start
swallows the colon, and what remains is a suffix of `D` -/
theorem run_swallows_colon (V D x1 x2 : Str)
    (hV : ∀ c, V.head? = some c → isPySpace c = true)
    (hx : (V ++ ':' :: D).takeWhile (fun c => !isPySpace c) = x1 ++ x2) (hne : x1 ≠ []) :
    V = [] ∧ ∃ d1, D = d1 ++ (x2 ++ (V ++ ':' :: D).dropWhile (fun c => !isPySpace c)) := by
  cases V with
  | cons v V =>
    have := hV v (by simp)
    simp [this] at hx
    exact absurd hx.1 hne
  | nil =>
    refine ⟨rfl, ?_⟩
    have hsplit := List.takeWhile_append_dropWhile (p := fun c => !isPySpace c) (l := ':' :: D)
    simp only [List.nil_append] at hx ⊢
    rw [hx] at hsplit
    cases x1 with
    | nil => exact absurd rfl hne
    | cons c x1 =>
      simp only [List.cons_append, List.append_assoc, List.cons.injEq] at hsplit
      exact ⟨x1, hsplit.2.symm⟩

/-- the unit fragment on `cap V : D` -/
theorem unitDefault_stage_colon {β} (cap V D : Str) (g : Option Str × Str → Option β) (b : β)
    (hcap : UnitCap cap (V ++ ':' :: D))
    (hV : ∀ c, V.head? = some c → isPySpace c = true)
    (hfail : V = [] → ∀ u d1 r, D = d1 ++ r → g (u, r) = none)
    (hok : g (some cap, V ++ ':' :: D) = some b) :
    firstSome (unitDefault (cap ++ V ++ ':' :: D)) g = some b := by
  rw [List.append_assoc]
  apply unitDefault_stage cap _ g b hcap _ hok
  intro x1 x2 hx hne
  obtain ⟨hVnil, d1, hd1⟩ := run_swallows_colon V D x1 x2 hV hx hne
  exact hfail hVnil _ d1 _ hd1

/-! ### the default pattern `name . unit value : descr` -/

/-- continuation of the default pattern after the unit fragment -/
def contGreedy (n : Option Str) : Option Str × Str → Option Fields := fun ur =>
  firstSome (valueGreedyColon ur.2) fun vr =>
    firstSome (descRest vr.2) fun dr => some (postProcess n ur.1 vr.1 dr.1)

theorem matchPattern_default_eq (line : Str) :
    matchPattern ⟨.dflt, .dflt, .greedyColon, .rest⟩ line =
      firstSome (nameDefault line) fun nr => firstSome (unitDefault nr.2) (contGreedy nr.1) := rfl

theorem contGreedy_ok (n u : Option Str) (V D : Str) (hD : ∀ c ∈ D, c ≠ ':') :
    contGreedy n (u, V ++ ':' :: D) = some (postProcess n u (some V) (some D)) := by
  obtain ⟨tl, h⟩ := valueGreedyColon_last V D hD
  unfold contGreedy
  simp only [h]
  apply firstSome_head
  simp [descRest, firstSome]

theorem contGreedy_nocolon (n u : Option Str) (r : Str) (h : ∀ c ∈ r, c ≠ ':') :
    contGreedy n (u, r) = none := by
  unfold contGreedy
  simp only [valueGreedyColon_nocolon r h]
  rfl

/-- the default pattern on `A . cap V : D` (`D` without colon) -/
theorem matchPattern_default_ok (A cap V D : Str)
    (hA : A ≠ []) (hAdot : ∀ c ∈ A, c ≠ '.')
    (hcap : UnitCap cap (V ++ ':' :: D))
    (hV : ∀ c, V.head? = some c → isPySpace c = true)
    (hD : ∀ c ∈ D, c ≠ ':') :
    matchPattern ⟨.dflt, .dflt, .greedyColon, .rest⟩ (A ++ '.' :: (cap ++ V ++ ':' :: D)) =
      some (postProcess (some A) (some cap) (some V) (some D)) := by
  rw [matchPattern_default_eq, nameDefault_split A _ hA hAdot, firstSome_singleton]
  dsimp only
  apply unitDefault_stage_colon cap V D _ _ hcap hV
  · intro _ u d1 r hd
    apply contGreedy_nocolon
    intro c hc
    exact hD c (by rw [hd]; simp [hc])
  · exact contGreedy_ok _ _ _ _ hD

/-- how the unit fragment captures a conformant unit followed by `V : D`: either the unit itself, or
(non-empty all-digit unit followed by white space) the unit plus that one white-space character -/
theorem unitCap_layout (unit V D : Str)
    (hu : ∀ c ∈ unit, isPySpace c = false)
    (hV : ∀ c, V.head? = some c → isPySpace c = true)
    (hdig : unit ≠ [] → (∀ c ∈ unit, isAsciiDigit c = true) →
      ∀ b1 V', V = b1 :: V' → ∀ c, V'.head? = some c → isPySpace c = true) :
    ∃ cap V', cap ++ V' = unit ++ V ∧ UnitCap cap (V' ++ ':' :: D) ∧ strip cap = unit ∧
      strip V' = strip V ∧ (∀ c, V'.head? = some c → isPySpace c = true) ∧ (V' = V ∨ ∃ b1, V = b1 :: V') ∧
      (V' = [] → V.length ≤ 1 ∧ (V ≠ [] → unit ≠ [] ∧ ∀ c ∈ unit, isAsciiDigit c = true)) := by
  have hsu : strip unit = unit := strip_nospace unit hu
  by_cases hgrp : unit ≠ [] ∧ ∀ c ∈ unit, isAsciiDigit c = true
  · cases V with
    | nil =>
      refine ⟨unit, [], rfl, Or.inl ⟨hu, Or.inr ?_⟩, hsu, rfl, hV, Or.inl rfl,
        fun _ => ⟨by simp, by simp⟩⟩
      intro c hc
      have : c = ':' := by simpa using hc.symm
      subst this
      exact ⟨by decide, Or.inr (by decide)⟩
    | cons b1 V' =>
      have hb1 : isPySpace b1 = true := hV b1 (by simp)
      refine ⟨unit ++ [b1], V', by simp, Or.inr ⟨unit, b1, [], rfl, hgrp.1, hgrp.2, hb1, by simp⟩,
        ?_, ?_, hdig hgrp.1 hgrp.2 b1 V' rfl, Or.inr ⟨b1, rfl⟩, ?_⟩
      · have := strip_pad [] unit [b1] (by simp) (by simpa using hb1)
        simpa [hsu] using this
      · have := strip_pad [b1] V' [] (by simpa using hb1) (by simp)
        simpa using this.symm
      · intro h; subst h; exact ⟨by simp, fun _ => hgrp⟩
  · refine ⟨unit, V, rfl, Or.inl ⟨hu, ?_⟩, hsu, rfl, hV, Or.inl rfl, ?_⟩
    · by_cases hune : unit = []
      · right
        intro c hc
        refine ⟨?_, Or.inl hune⟩
        cases V with
        | nil =>
          have : c = ':' := by simpa using hc.symm
          subst this; decide
        | cons v V =>
          have hcv : c = v := by simpa using hc.symm
          subst hcv
          have := hV c (by simp)
          cases hd : isAsciiDigit c with
          | false => rfl
          | true => rw [isAsciiDigit_not_space c hd] at this; exact absurd this (by simp)
      · left
        have : ¬ ∀ c ∈ unit, isAsciiDigit c = true := fun h => hgrp ⟨hune, h⟩
        simpa using this
    · intro h; subst h; exact ⟨by simp, fun h => absurd rfl h⟩

/-! ### where the first ".." of a laid-out line can be -/

theorem getLast?_ne_of_forall {l : Str} {x : Char} (h : ∀ c ∈ l, c ≠ x) : l.getLast? ≠ some x :=
  fun hl => h x (List.mem_of_getLast? hl) rfl

theorem head?_ne_of_forall {l : Str} {x : Char} (h : ∀ c ∈ l, c ≠ x) : l.head? ≠ some x :=
  fun hl => h x (List.mem_of_mem_head? hl) rfl

theorem findDotDot_pad (a s b : Str) (ha : ∀ c ∈ a, c ≠ '.') (hb : ∀ c ∈ b, c ≠ '.')
    (hs : findDotDot s = none) : findDotDot (a ++ s ++ b) = none := by
  apply findDotDot_append_none _ _ _ (findDotDot_nodot b hb)
  · exact fun h => head?_ne_of_forall hb h.2
  · exact findDotDot_append_none _ _ (findDotDot_nodot a ha) hs
      (fun h => getLast?_ne_of_forall ha h.1)

/-- no ".." in `A . unit V` -/
theorem findDotDot_prefix_none (A unit V : Str) (hA : ∀ c ∈ A, c ≠ '.')
    (hu1 : unit.head? ≠ some '.') (hu2 : findDotDot unit = none)
    (hV1 : V.head? ≠ some '.') (hV2 : findDotDot V = none) :
    findDotDot (A ++ '.' :: (unit ++ V)) = none := by
  apply findDotDot_append_none _ _ (findDotDot_nodot A hA)
  · rw [findDotDot_cons, findDotDot_append_none unit V hu2 hV2 (fun h => hV1 h.2)]
    simp only [true_and, Option.map_none, ite_eq_right_iff]
    intro h
    rw [List.head?_append] at h
    cases hh : unit.head? with
    | none => rw [hh] at h; exact absurd (by simpa using h) hV1
    | some c => rw [hh] at h hu1; exact absurd (by simpa using h) hu1
  · exact fun h => getLast?_ne_of_forall hA h.1

/-- the first ".." of `P : D`, when `P` has none, lies after the colon -/
theorem findDotDot_after_colon (P D : Str) (hP : findDotDot P = none) (dd : Nat)
    (h : findDotDot (P ++ ':' :: D) = some dd) : ¬ dd < P.length := by
  rw [findDotDot_append_shift P _ hP (by simp)] at h
  cases hd : findDotDot (':' :: D) with
  | none => simp [hd] at h
  | some k =>
    rw [hd] at h
    have : k + P.length = dd := by simpa using h
    omega

/-! ### `parseHeaderLine` on `A . unit V : D` outside ~Parameter -/

theorem period_before_colon (A R : Str) (hAcolon : ∀ c ∈ A, c ≠ ':') :
    '.' ∈ (A ++ '.' :: R).takeWhile (· != ':') := by
  rw [(takeWhile_append_all (p := (· != ':')) A _ (by intro x hx; simpa using hAcolon x hx)).1]
  simp

theorem postProcess_eq (A cap V' D unit V : Str) (h1 : strip cap = unit) (h2 : strip V' = strip V)
    (hulast : unit.getLast? ≠ some '.') :
    postProcess (some A) (some cap) (some V') (some D) = ⟨strip A, unit, strip V, strip D⟩ := by
  simp [postProcess, grp, h1, h2, hulast]

theorem parse_default_ok (sec : SecName) (hsec : sec ≠ .parameter) (A cap V D : Str)
    (hA : A ≠ []) (hAdot : ∀ c ∈ A, c ≠ '.') (hAcolon : ∀ c ∈ A, c ≠ ':')
    (hcap : UnitCap cap (V ++ ':' :: D))
    (hV : ∀ c, V.head? = some c → isPySpace c = true)
    (hD : ∀ c ∈ D, c ≠ ':')
    (hcurves : sec = .curves → findDotDot (A ++ '.' :: (cap ++ V)) = none) :
    parseHeaderLine sec (A ++ '.' :: (cap ++ V ++ ':' :: D)) =
      some (postProcess (some A) (some cap) (some V) (some D)) := by
  have hcfg : configurePatterns (A ++ '.' :: (cap ++ V ++ ':' :: D)) sec =
      [⟨.dflt, .dflt, .greedyColon, .rest⟩] := by
    apply configurePatterns_default _ _ hsec
    · simp
    · exact period_before_colon A _ hAcolon
    · intro hcv dd dc hdd hdc
      have hline : A ++ '.' :: (cap ++ V ++ ':' :: D) = (A ++ '.' :: (cap ++ V)) ++ ':' :: D := by
        simp
      rw [hline] at hdd hdc
      rw [rfindColon_last _ _ hD] at hdc
      have := findDotDot_after_colon _ D (hcurves hcv) dd hdd
      have hdc' : (A ++ '.' :: (cap ++ V)).length = dc := by simpa using hdc
      omega
  unfold parseHeaderLine
  rw [hcfg, firstSome_singleton]
  exact matchPattern_default_ok A cap V D hA hAdot hcap hV hD

/-- round trip on `A . unit V : D` outside ~Parameter, `unit` conformant -/
theorem parse_layout_ok (sec : SecName) (hsec : sec ≠ .parameter) (A unit V D : Str)
    (hA : A ≠ []) (hAdot : ∀ c ∈ A, c ≠ '.') (hAcolon : ∀ c ∈ A, c ≠ ':')
    (hu : ∀ c ∈ unit, isPySpace c = false) (hulast : unit.getLast? ≠ some '.')
    (hV : ∀ c, V.head? = some c → isPySpace c = true)
    (hdig : unit ≠ [] → (∀ c ∈ unit, isAsciiDigit c = true) →
      ∀ b1 V', V = b1 :: V' → ∀ c, V'.head? = some c → isPySpace c = true)
    (hD : ∀ c ∈ D, c ≠ ':')
    (hcurves : sec = .curves →
      unit.head? ≠ some '.' ∧ findDotDot unit = none ∧ findDotDot V = none) :
    parseHeaderLine sec (A ++ '.' :: (unit ++ V ++ ':' :: D)) =
      some ⟨strip A, unit, strip V, strip D⟩ := by
  obtain ⟨cap, V', happ, hcap, hs1, hs2, hV', _, _⟩ := unitCap_layout unit V D hu hV hdig
  have hline : A ++ '.' :: (unit ++ V ++ ':' :: D) = A ++ '.' :: (cap ++ V' ++ ':' :: D) := by
    rw [happ]
  rw [hline, parse_default_ok sec hsec A cap V' D hA hAdot hAcolon hcap hV' hD ?_,
    postProcess_eq A cap V' D unit V hs1 hs2 hulast]
  intro hcv
  obtain ⟨h1, h2, h3⟩ := hcurves hcv
  have hV1 : V.head? ≠ some '.' := by
    intro h
    exact absurd (hV '.' h) (by decide)
  rw [happ]
  exact findDotDot_prefix_none A unit V hAdot h1 h2 hV1 h3

/-! ### padded regions -/

theorem head?_pad (P : Char → Prop) (a s b : Str) (ha : ∀ c ∈ a, P c) (hb : ∀ c ∈ b, P c)
    (hs : s ≠ [] → a ≠ []) : ∀ c, (a ++ s ++ b).head? = some c → P c := by
  intro c hc
  cases a with
  | cons x a =>
    have : c = x := by simpa using hc.symm
    subst this; exact ha c (by simp)
  | nil =>
    have hs' : s = [] := by
      cases s with
      | nil => rfl
      | cons y s => exact absurd rfl (hs (by simp))
    subst hs'
    exact hb c (List.mem_of_mem_head? (by simpa using hc))

theorem forall_mem_append3 {P : Char → Prop} (a s b : Str) (ha : ∀ c ∈ a, P c)
    (hs : ∀ c ∈ s, P c) (hb : ∀ c ∈ b, P c) : ∀ c ∈ a ++ s ++ b, P c := by
  intro c hc
  rcases List.mem_append.mp hc with h | h
  · rcases List.mem_append.mp h with h | h
    · exact ha c h
    · exact hs c h
  · exact hb c h

theorem two_le_length {l : Str} (h : 2 ≤ l.length) : ∃ b1 b2 l', l = b1 :: b2 :: l' := by
  match l, h with
  | b1 :: b2 :: l', _ => exact ⟨b1, b2, l', rfl⟩

/-- in a padded region `a ++ s ++ b`, what follows the first character starts with a pad character
whenever `s = []` or `2 ≤ a.length` -/
theorem second_pad (P : Char → Prop) (a s b : Str) (ha : ∀ c ∈ a, P c) (hb : ∀ c ∈ b, P c)
    (hs : s ≠ [] → 2 ≤ a.length) :
    ∀ b1 V', a ++ s ++ b = b1 :: V' → ∀ c, V'.head? = some c → P c := by
  intro b1 V' hV c hc
  cases a with
  | nil =>
    have hs' : s = [] := by
      cases s with
      | nil => rfl
      | cons y s => have := hs (by simp); simp at this
    subst hs'
    have hb' : b = b1 :: V' := by simpa using hV
    apply hb; rw [hb']; exact List.mem_cons_of_mem _ (List.mem_of_mem_head? hc)
  | cons x a =>
    have hV' : V' = a ++ s ++ b := by
      simp only [List.cons_append, List.cons.injEq] at hV; exact hV.2.symm
    subst hV'
    refine head?_pad P a s b (fun c h => ha c (by simp [h])) hb ?_ c hc
    intro hne
    have := hs hne
    intro h; subst h; simp at this

/-! ### the clock-time pattern of ~Parameter -/

/-- the look-ahead `(?!([0-5][0-9]|mm|MM))` of the clock-time pattern *rejects* a colon followed by
`after` -/
def clockAhead (after : Str) : Bool :=
  match after with
  | a1 :: a2 :: _ =>
    (('0' ≤ a1 && a1 ≤ '5') && isAsciiDigit a2) || (a1 == 'm' && a2 == 'm') || (a1 == 'M' && a2 == 'M')
  | _ => false

theorem sepOk_of_clockAhead (before after : Str) (h : clockAhead after = true) :
    sepOk before after = false := by
  rcases after with _ | ⟨a1, _ | ⟨a2, t⟩⟩
  · simp [clockAhead] at h
  · simp [clockAhead] at h
  · have h' : ((('0' ≤ a1 && a1 ≤ '5') && isAsciiDigit a2) || (a1 == 'm' && a2 == 'm') ||
        (a1 == 'M' && a2 == 'M')) = true := h
    simp only [sepOk, h', Bool.not_true, Bool.and_false]

theorem clockAhead_append (v r : Str) (h : clockAhead v = true) : clockAhead (v ++ r) = true := by
  rcases v with _ | ⟨a1, _ | ⟨a2, v⟩⟩
  · simp [clockAhead] at h
  · simp [clockAhead] at h
  · simpa [clockAhead] using h

/-- every colon of `v` is rejected by the clock-time look-ahead (it is followed, inside `v`, by
`[0-5][0-9]`, `mm` or `MM`); in particular `v` may have no colon at all -/
def timeLikeB : Str → Bool
  | [] => true
  | c :: cs => (c != ':' || clockAhead cs) && timeLikeB cs

theorem timeLikeB_split (v a b : Str) (h : timeLikeB v = true) (hv : v = a ++ ':' :: b) :
    clockAhead b = true := by
  induction a generalizing v with
  | nil =>
    subst hv
    simp only [List.nil_append, timeLikeB, Bool.and_eq_true] at h
    simpa using h.1
  | cons x a ih =>
    subst hv
    simp only [List.cons_append, timeLikeB, Bool.and_eq_true] at h
    exact ih _ h.2 rfl

theorem timeLikeB_of_split (v : Str) (h : ∀ a b, v = a ++ ':' :: b → clockAhead b = true) :
    timeLikeB v = true := by
  induction v with
  | nil => rfl
  | cons c v ih =>
    simp only [timeLikeB, Bool.and_eq_true]
    refine ⟨?_, ih (fun a b hv => h (c :: a) b (by rw [hv]; rfl))⟩
    by_cases hc : c = ':'
    · subst hc
      simp [h [] v rfl]
    · simp [hc]

theorem timeLikeB_of_nocolon (v : Str) (h : ∀ c ∈ v, c ≠ ':') : timeLikeB v = true := by
  induction v with
  | nil => rfl
  | cons c v ih =>
    have hc : c ≠ ':' := h c (by simp)
    simp [timeLikeB, hc, ih (fun y hy => h y (by simp [hy]))]

theorem timeLikeB_append_left (a v : Str) (ha : ∀ c ∈ a, c ≠ ':') (hv : timeLikeB v = true) :
    timeLikeB (a ++ v) = true := by
  induction a with
  | nil => exact hv
  | cons c a ih =>
    have hc : c ≠ ':' := ha c (by simp)
    simp [timeLikeB, hc, ih (fun y hy => ha y (by simp [hy]))]

theorem timeLikeB_append_right (v b : Str) (hv : timeLikeB v = true) (hb : ∀ c ∈ b, c ≠ ':') :
    timeLikeB (v ++ b) = true := by
  induction v with
  | nil => exact timeLikeB_of_nocolon b hb
  | cons c v ih =>
    simp only [timeLikeB, Bool.and_eq_true] at hv
    simp only [List.cons_append, timeLikeB, Bool.and_eq_true]
    refine ⟨?_, ih hv.2⟩
    rcases Bool.or_eq_true _ _ |>.mp hv.1 with h | h
    · simp [h]
    · simp [clockAhead_append v b h]

theorem timeLikeB_tail (c : Char) (v : Str) (h : timeLikeB (c :: v) = true) : timeLikeB v = true := by
  simp only [timeLikeB, Bool.and_eq_true] at h
  exact h.2

theorem colonSplits_mem (s v r : Str) (h : (v, r) ∈ colonSplits s) : s = v ++ ':' :: r := by
  induction s generalizing v with
  | nil => simp [colonSplits] at h
  | cons c s ih =>
    simp only [colonSplits] at h
    rcases List.mem_append.mp h with h | h
    · split at h
      · rename_i hc
        have hc' : c = ':' := by simpa using hc
        have : (v, r) = ([], s) := by simpa using h
        obtain ⟨rfl, rfl⟩ := Prod.mk.inj this
        simp [hc']
      · simp at h
    · obtain ⟨⟨v', r'⟩, hm, he⟩ := List.mem_map.mp h
      obtain ⟨rfl, rfl⟩ := Prod.mk.inj he
      rw [ih v' hm]; rfl

/-- continuation of the clock-time pattern after the unit fragment -/
def contTime (line : Str) (n : Option Str) : Option Str × Str → Option Fields := fun ur =>
  firstSome (valueTime ((line.take (line.length - ur.2.length)).reverse) ur.2) fun vr =>
    firstSome (descRest vr.2) fun dr => some (postProcess n ur.1 vr.1 dr.1)

theorem matchPattern_time_eq (line : Str) :
    matchPattern ⟨.dflt, .dflt, .time, .rest⟩ line =
      firstSome (nameDefault line) fun nr => firstSome (unitDefault nr.2) (contTime line nr.1) := rfl

theorem take_consumed (X r : Str) : (X ++ r).take ((X ++ r).length - r.length) = X := by
  have : (X ++ r).length - r.length = X.length := by simp
  rw [this, List.take_left]

theorem filterMap_append_none {α β} (l₁ l₂ : List α) (f : α → Option β)
    (h : ∀ a ∈ l₁, f a = none) : (l₁ ++ l₂).filterMap f = l₂.filterMap f := by
  rw [List.filterMap_append, List.filterMap_eq_nil_iff.mpr h, List.nil_append]

theorem contTime_ok (line X V D : Str) (n u : Option Str) (hline : line = X ++ (V ++ ':' :: D))
    (hV : timeLikeB V = true) (hsep : sepOk ((X ++ V).reverse) D = true) :
    contTime line n (u, V ++ ':' :: D) = some (postProcess n u (some V) (some D)) := by
  unfold contTime
  simp only [hline, take_consumed]
  have hsep' : sepOk (V.reverse ++ X.reverse) D = true := by simpa using hsep
  have hvt : ∃ tl, valueTime X.reverse (V ++ ':' :: D) = (some V, D) :: tl := by
    unfold valueTime
    rw [colonSplits_append, filterMap_append_none]
    · simp only [colonSplits, beq_self_eq_true, ↓reduceIte, List.cons_append, List.nil_append,
        List.map_cons, List.append_nil, List.filterMap_cons, hsep']
      exact ⟨_, rfl⟩
    · intro ⟨v1, r1⟩ hm
      obtain ⟨⟨v1', v2⟩, hm', he⟩ := List.mem_map.mp hm
      obtain ⟨rfl, rfl⟩ := Prod.mk.inj he
      have := timeLikeB_split V v1' v2 hV (colonSplits_mem V v1' v2 hm')
      simp only [sepOk_of_clockAhead _ _ (clockAhead_append v2 (':' :: D) this)]
      rfl
  obtain ⟨tl, htl⟩ := hvt
  simp only [htl]
  apply firstSome_head
  simp [descRest, firstSome]

theorem contTime_nocolon (line : Str) (n u : Option Str) (r : Str) (h : ∀ c ∈ r, c ≠ ':') :
    contTime line n (u, r) = none := by
  unfold contTime
  simp only [valueTime, colonSplits_nocolon r h]
  rfl

/-- on a line `P : D` where every colon of `P` is rejected by the look-ahead, `D` has no colon and the
delimiter colon fails the look-around, the clock-time continuation fails at every position -/
theorem contTime_unique_fail (line P D X r : Str) (n u : Option Str)
    (hline : line = P ++ ':' :: D) (hP : timeLikeB P = true) (hD : ∀ c ∈ D, c ≠ ':')
    (hsep : sepOk P.reverse D = false) (hX : line = X ++ r) :
    contTime line n (u, r) = none := by
  unfold contTime
  simp only [hX, take_consumed]
  have hvt : valueTime X.reverse r = [] := by
    unfold valueTime
    apply List.filterMap_eq_nil_iff.mpr
    intro ⟨v, r'⟩ hm
    have hr := colonSplits_mem r v r' hm
    have heq : P ++ ':' :: D = (X ++ v) ++ ':' :: r' := by
      rw [← hline, hX, hr]; simp
    have hdelim : X ++ v = P → r' = D → sepOk (v.reverse ++ X.reverse) r' = false := by
      intro h1 h2
      rw [← List.reverse_append, h1, h2]; exact hsep
    have hgoal : sepOk (v.reverse ++ X.reverse) r' = false := by
      rcases List.append_eq_append_iff.mp heq with ⟨a', hXa, hr'⟩ | ⟨c', hPc, hr'⟩
      · cases a' with
        | nil =>
          simp only [List.nil_append, List.cons.injEq, true_and] at hr'
          exact hdelim (by simpa using hXa) hr'.symm
        | cons a a'' =>
          simp only [List.cons_append, List.cons.injEq] at hr'
          exact absurd rfl (hD ':' (by rw [hr'.2]; simp))
      · cases c' with
        | nil =>
          simp only [List.nil_append, List.cons.injEq, true_and] at hr'
          exact hdelim (by simpa using hPc.symm) hr'
        | cons c c'' =>
          simp only [List.cons_append, List.cons.injEq] at hr'
          obtain ⟨hc, hr''⟩ := hr'
          subst hc
          have := timeLikeB_split P (X ++ v) c'' hP hPc
          rw [hr'']
          exact sepOk_of_clockAhead _ _ (clockAhead_append c'' _ this)
    simp only [hgoal]
    rfl
  rw [hvt]
  rfl

/-- the clock-time pattern on `A . cap V : D` when the delimiter colon passes the look-around -/
theorem matchPattern_time_ok (A cap V D : Str)
    (hA : A ≠ []) (hAdot : ∀ c ∈ A, c ≠ '.')
    (hcap : UnitCap cap (V ++ ':' :: D))
    (hV : ∀ c, V.head? = some c → isPySpace c = true)
    (hVt : timeLikeB V = true)
    (hD : V = [] → ∀ c ∈ D, c ≠ ':')
    (hsep : sepOk ((A ++ '.' :: (cap ++ V)).reverse) D = true) :
    matchPattern ⟨.dflt, .dflt, .time, .rest⟩ (A ++ '.' :: (cap ++ V ++ ':' :: D)) =
      some (postProcess (some A) (some cap) (some V) (some D)) := by
  rw [matchPattern_time_eq, nameDefault_split A _ hA hAdot, firstSome_singleton]
  dsimp only
  apply unitDefault_stage_colon cap V D _ _ hcap hV
  · intro hVnil u d1 r hd
    apply contTime_nocolon
    intro c hc
    exact hD hVnil c (by rw [hd]; simp [hc])
  · apply contTime_ok _ (A ++ '.' :: cap) V D _ _ (by simp) hVt
    simpa using hsep

/-- the clock-time pattern fails on `A . R` when no colon of the line passes the look-around -/
theorem matchPattern_time_none (A R P D : Str)
    (hA : A ≠ []) (hAdot : ∀ c ∈ A, c ≠ '.')
    (hline : A ++ '.' :: R = P ++ ':' :: D) (hP : timeLikeB P = true) (hD : ∀ c ∈ D, c ≠ ':')
    (hsep : sepOk P.reverse D = false) :
    matchPattern ⟨.dflt, .dflt, .time, .rest⟩ (A ++ '.' :: R) = none := by
  rw [matchPattern_time_eq, nameDefault_split A _ hA hAdot, firstSome_singleton]
  dsimp only
  apply firstSome_all_none
  intro ⟨u, r⟩ hur
  obtain ⟨X, hX⟩ := unitDefault_mem R u r hur
  exact contTime_unique_fail _ P D (A ++ '.' :: X) r _ _ hline hP hD hsep (by rw [hX]; simp)

theorem sepOk_blank (b3 b4 : Char) (x y : Str) (h3 : IsBlank b3) (h4 : IsBlank b4) :
    sepOk (b3 :: x) (b4 :: y) = true := by
  rcases x with _ | ⟨c2, _ | ⟨c1, x⟩⟩ <;> rcases y with _ | ⟨a2, y⟩ <;>
    rcases h3 with rfl | rfl <;> rcases h4 with rfl | rfl <;> simp [sepOk]

/-- round trip on `A . unit V : D` in ~Parameter: either the clock-time pattern gives the fields, or it
fails and the default pattern gives them -/
theorem parse_layout_param_ok (A unit V D : Str)
    (hA : A ≠ []) (hAdot : ∀ c ∈ A, c ≠ '.') (hAcolon : ∀ c ∈ A, c ≠ ':')
    (hu : ∀ c ∈ unit, isPySpace c = false) (hulast : unit.getLast? ≠ some '.')
    (hV : ∀ c, V.head? = some c → isPySpace c = true)
    (hVt : timeLikeB V = true)
    (hdig : unit ≠ [] → (∀ c ∈ unit, isAsciiDigit c = true) →
      ∀ b1 V', V = b1 :: V' → ∀ c, V'.head? = some c → isPySpace c = true)
    (hD1 : (∃ c ∈ D, c = ':') → V ≠ [])
    (hD2 : (∃ c ∈ D, c = ':') → unit ≠ [] → (∀ c ∈ unit, isAsciiDigit c = true) → 2 ≤ V.length)
    (hsep : ((∃ c ∈ D, c = ':') ∨ (∃ c ∈ unit, c = ':')) →
      sepOk ((A ++ '.' :: (unit ++ V)).reverse) D = true) :
    parseHeaderLine .parameter (A ++ '.' :: (unit ++ V ++ ':' :: D)) =
      some ⟨strip A, unit, strip V, strip D⟩ := by
  obtain ⟨cap, V', happ, hcap, hs1, hs2, hV', hsub, hnil⟩ := unitCap_layout unit V D hu hV hdig
  have hline : A ++ '.' :: (unit ++ V ++ ':' :: D) = A ++ '.' :: (cap ++ V' ++ ':' :: D) := by
    rw [happ]
  have hcfg := configurePatterns_parameter (A ++ '.' :: (cap ++ V' ++ ':' :: D)) (by simp)
    (period_before_colon A _ hAcolon)
  have hpost := postProcess_eq A cap V' D unit V hs1 hs2 hulast
  have hV't : timeLikeB V' = true := by
    rcases hsub with rfl | ⟨b1, rfl⟩
    · exact hVt
    · exact timeLikeB_tail b1 V' hVt
  rw [hline]
  unfold parseHeaderLine
  rw [hcfg]
  cases hs : sepOk ((A ++ '.' :: (unit ++ V)).reverse) D with
  | true =>
    apply firstSome_head
    rw [← hpost]
    apply matchPattern_time_ok A cap V' D hA hAdot hcap hV' hV't
    · intro hV'nil c hc heq
      obtain ⟨hlen, hd⟩ := hnil hV'nil
      have hex : ∃ c ∈ D, c = ':' := ⟨c, hc, heq⟩
      have hVne := hD1 hex
      obtain ⟨hune, hdg⟩ := hd hVne
      have := hD2 hex hune hdg
      omega
    · rw [happ]; exact hs
  | false =>
    have hDc : ∀ c ∈ D, c ≠ ':' := by
      intro c hc heq
      rw [hsep (Or.inl ⟨c, hc, heq⟩)] at hs; exact absurd hs (by simp)
    have huc : ∀ c ∈ unit, c ≠ ':' := by
      intro c hc heq
      rw [hsep (Or.inr ⟨c, hc, heq⟩)] at hs; exact absurd hs (by simp)
    have hP : timeLikeB (A ++ '.' :: (unit ++ V)) = true := by
      have : A ++ '.' :: (unit ++ V) = (A ++ '.' :: unit) ++ V := by simp
      rw [this]
      apply timeLikeB_append_left _ _ _ hVt
      intro c hc
      rcases List.mem_append.mp hc with h | h
      · exact hAcolon c h
      · rcases List.mem_cons.mp h with rfl | h
        · decide
        · exact huc c h
    have hnone := matchPattern_time_none A (cap ++ V' ++ ':' :: D) (A ++ '.' :: (unit ++ V)) D
      hA hAdot (by rw [happ]; simp) hP hDc hs
    rw [firstSome_cons_none _ _ (fun p => matchPattern p _) hnone, firstSome_singleton, ← hpost]
    exact matchPattern_default_ok A cap V' D hA hAdot hcap hV' hDc

/-- a delimiter colon set off by a blank on both sides passes the clock-time look-around -/
theorem sepOk_blank_pads (X p3 p4 Y : Str) (h3 : p3 ≠ []) (h4 : p4 ≠ [])
    (hb3 : ∀ c ∈ p3, IsBlank c) (hb4 : ∀ c ∈ p4, IsBlank c) :
    sepOk ((X ++ p3).reverse) (p4 ++ Y) = true := by
  rw [List.reverse_append]
  cases hr : p3.reverse with
  | nil => exact absurd (by simpa using hr) h3
  | cons b r =>
    cases p4 with
    | nil => exact absurd rfl h4
    | cons b' p4 =>
      have hb : IsBlank b := hb3 b (by
        have : b ∈ p3.reverse := by rw [hr]; simp
        simpa using this)
      exact sepOk_blank b b' _ _ hb (hb4 b' (by simp))

/-! ### the `1000 lbf` unit form -/

theorem isAsciiDigit_ne_dot (c : Char) (h : isAsciiDigit c = true) : c ≠ '.' := by
  rintro rfl
  exact absurd h (by decide)

theorem strip_eq_self (s : Str) (hh : ∀ c, s.head? = some c → isPySpace c = false)
    (hl : ∀ c, s.getLast? = some c → isPySpace c = false) : strip s = s := by
  have hlstrip : lstrip s = s := by
    unfold lstrip
    cases s with
    | nil => rfl
    | cons c s => simp [hh c (by simp)]
  unfold strip
  rw [hlstrip]
  unfold rstrip
  cases hr : s.reverse with
  | nil => have : s = [] := by simpa using hr
           simp [this]
  | cons c r =>
    have hc : isPySpace c = false := hl c (by
      rw [← List.head?_reverse, hr]; rfl)
    simp only [List.dropWhile_cons, hc]
    rw [← hr]; simp

/-- outside ~Parameter: `A . digits ␣ suffix V : D` keeps the unit `digits ␣ suffix` -/
theorem parse_numeric_unit_ok (sec : SecName) (hsec : sec ≠ .parameter) (A ds : Str) (b : Char)
    (sfx V D : Str)
    (hA : A ≠ []) (hAdot : ∀ c ∈ A, c ≠ '.') (hAcolon : ∀ c ∈ A, c ≠ ':')
    (hds : ds ≠ []) (hdd : ∀ c ∈ ds, isAsciiDigit c = true) (hb : isPySpace b = true)
    (hsfx_ne : sfx ≠ []) (hsfx : ∀ c ∈ sfx, isPySpace c = false)
    (hsfx_last : sfx.getLast? ≠ some '.')
    (hV : ∀ c, V.head? = some c → isPySpace c = true)
    (hD : ∀ c ∈ D, c ≠ ':')
    (hcurves : sec = .curves → findDotDot sfx = none ∧ findDotDot V = none) :
    parseHeaderLine sec (A ++ '.' :: ((ds ++ b :: sfx) ++ V ++ ':' :: D)) =
      some ⟨strip A, ds ++ b :: sfx, strip V, strip D⟩ := by
  have hcap : UnitCap (ds ++ b :: sfx) (V ++ ':' :: D) :=
    Or.inr ⟨ds, b, sfx, rfl, hds, hdd, hb, hsfx⟩
  have hlast : (ds ++ b :: sfx).getLast? = sfx.getLast? := by
    cases sfx with
    | nil => exact absurd rfl hsfx_ne
    | cons x sfx =>
      rw [List.getLast?_append, List.getLast?_cons_cons]
      cases h : (x :: sfx).getLast? with
      | none => simp at h
      | some y => rfl
  have hhead : ∀ c, (ds ++ b :: sfx).head? = some c → isAsciiDigit c = true := by
    intro c hc
    cases ds with
    | nil => exact absurd rfl hds
    | cons d ds =>
      have : c = d := by simpa using hc.symm
      subst this; exact hdd c (by simp)
  have hstrip : strip (ds ++ b :: sfx) = ds ++ b :: sfx := by
    apply strip_eq_self
    · intro c hc; exact isAsciiDigit_not_space c (hhead c hc)
    · intro c hc; rw [hlast] at hc; exact hsfx c (List.mem_of_getLast? hc)
  have hulast : (ds ++ b :: sfx).getLast? ≠ some '.' := by rw [hlast]; exact hsfx_last
  rw [parse_default_ok sec hsec A (ds ++ b :: sfx) V D hA hAdot hAcolon hcap hV hD ?_,
    postProcess_eq A _ V D _ V hstrip rfl hulast]
  intro hcv
  obtain ⟨h1, h2⟩ := hcurves hcv
  have hbdot : b ≠ '.' := by rintro rfl; exact absurd hb (by decide)
  apply findDotDot_prefix_none A _ V hAdot _ _ _ h2
  · intro h
    exact isAsciiDigit_ne_dot _ (hhead _ h) rfl
  · apply findDotDot_append_none _ _ (findDotDot_nodot ds (fun c h => isAsciiDigit_ne_dot c (hdd c h)))
    · rw [findDotDot_cons, h1]; simp [hbdot]
    · intro h
      exact isAsciiDigit_ne_dot _ (hdd _ (List.mem_of_getLast? h.1)) rfl
  · intro h
    exact absurd (hV '.' h) (by decide)

/-! ### lines without a period before the first colon: `NAME : VALUE` -/

theorem configurePatterns_missing (line : Str) (sec : SecName)
    (hcolon : ':' ∈ line) (hnodot : '.' ∉ line.takeWhile (· != ':'))
    (hcurves : sec = .curves → ∀ dd dc, findDotDot line = some dd → rfindColon line = some dc →
      ¬ dd < dc) :
    configurePatterns line sec =
      (if sec == .parameter then [⟨.missingPeriod, .none, .all, .none⟩] else []) ++
        [⟨.missingPeriod, .none, .all, .none⟩] := by
  have h1 : line.contains ':' = true := List.contains_iff_mem.mpr hcolon
  have h2 : (line.takeWhile (· != ':')).contains '.' = false := by
    cases h : (line.takeWhile (· != ':')).contains '.' with
    | false => rfl
    | true => exact absurd (List.contains_iff_mem.mp h) hnodot
  unfold configurePatterns
  simp only [h1, h2, Bool.not_true, Bool.not_false, Bool.and_true, Bool.false_eq_true, ↓reduceIte]
  generalize hN : (if (hasNonBlankDotDot line && sec == SecName.curves) = true then _ else _ : NameK)
    = N
  have hname : N = NameK.missingPeriod := by
    rw [← hN]
    split
    · rename_i hc
      have hcv : sec = .curves := by
        rw [Bool.and_eq_true] at hc; simpa using hc.2
      split
      · rename_i dd dc hdd hdc
        rw [if_neg (hcurves hcv dd dc hdd hdc)]
      · rfl
    · rfl
  rw [hname]

theorem matchPattern_missing_ok (name value : Str) (hn : ∀ c ∈ name, c ≠ ':') :
    matchPattern ⟨.missingPeriod, .none, .all, .none⟩ (name ++ ':' :: value) =
      some ⟨strip name, [], strip value, []⟩ := by
  obtain ⟨tl, htl⟩ := shrinks_head value []
  simp only [matchPattern, nameFrag, unitFrag, valueFrag, descFrag, nameMissingPeriod,
    splitFirst_append ':' name value hn, fragNone, valueAll, htl, List.map_cons, firstSome]
  simp [postProcess, grp]

/-- `NAME : VALUE` in any section (in ~Curves the first ".." must not come before the last colon) -/
theorem parse_missing_ok (sec : SecName) (name value : Str)
    (hn : ∀ c ∈ name, c ≠ '.' ∧ c ≠ ':')
    (hcurves : sec = .curves → findDotDot value = none ∨ ∀ c ∈ value, c ≠ ':') :
    parseHeaderLine sec (name ++ ':' :: value) = some ⟨strip name, [], strip value, []⟩ := by
  have hcfg := configurePatterns_missing (name ++ ':' :: value) sec (by simp)
    (by
      rw [(takeWhile_append_stop (p := (· != ':')) name ':' value
        (by intro x hx; simpa using (hn x hx).2) (by simp)).1]
      exact fun h => (hn '.' h).1 rfl)
    (by
      intro hcv dd dc hdd hdc
      have hname : findDotDot name = none := findDotDot_nodot name (fun c h => (hn c h).1)
      rcases hcurves hcv with hv | hv
      · rw [findDotDot_append_shift name _ hname (by simp), findDotDot_cons, hv] at hdd
        simp at hdd
      · rw [rfindColon_last name value hv] at hdc
        have := findDotDot_after_colon name value hname dd hdd
        have : name.length = dc := by simpa using hdc
        omega)
  have hm := matchPattern_missing_ok name value (fun c h => (hn c h).2)
  unfold parseHeaderLine
  rw [hcfg]
  split
  · exact firstSome_head _ _ _ _ hm
  · rw [List.nil_append, firstSome_singleton]; exact hm

/-! ### clock times are time-like -/

theorem isAsciiDigit_ne_colon (c : Char) (h : isAsciiDigit c = true) : c ≠ ':' := by
  rintro rfl
  exact absurd h (by decide)

theorem tens_ne_colon (c : Char) (h : ('0' ≤ c && c ≤ '5') = true) : c ≠ ':' := by
  rintro rfl
  exact absurd h (by decide)

/-- `HH:MM:SS` with `MM`, `SS` below 60 -/
theorem timeLikeB_hms (h1 h2 m1 m2 s1 s2 : Char)
    (hh1 : isAsciiDigit h1 = true) (hh2 : isAsciiDigit h2 = true)
    (hm1 : ('0' ≤ m1 && m1 ≤ '5') = true) (hm2 : isAsciiDigit m2 = true)
    (hs1 : ('0' ≤ s1 && s1 ≤ '5') = true) (hs2 : isAsciiDigit s2 = true) :
    timeLikeB [h1, h2, ':', m1, m2, ':', s1, s2] = true := by
  have e1 := isAsciiDigit_ne_colon h1 hh1
  have e2 := isAsciiDigit_ne_colon h2 hh2
  have e3 := tens_ne_colon m1 hm1
  have e4 := isAsciiDigit_ne_colon m2 hm2
  have e5 := tens_ne_colon s1 hs1
  have e6 := isAsciiDigit_ne_colon s2 hs2
  have c1 : clockAhead [m1, m2, ':', s1, s2] = true := by
    simp only [clockAhead, hm1, hm2, Bool.and_self, Bool.true_or]
  have c2 : clockAhead [s1, s2] = true := by
    simp only [clockAhead, hs1, hs2, Bool.and_self, Bool.true_or]
  simp [timeLikeB, e1, e2, e3, e4, e5, e6, c1, c2]

/-! ### a unit with a trailing period -/

theorem stripChar_trailing (u : Str) (h1 : u.head? ≠ some '.') (h2 : u.getLast? ≠ some '.') :
    stripChar '.' (u ++ ['.']) = u := by
  cases u with
  | nil => rfl
  | cons c0 u0 =>
    have hc0 : c0 ≠ '.' := by simpa using h1
    unfold stripChar
    have hd : (c0 :: u0 ++ ['.']).dropWhile (· == '.') = c0 :: u0 ++ ['.'] := by simp [hc0]
    rw [hd]
    simp only [List.reverse_append, List.reverse_singleton, List.singleton_append,
      List.dropWhile_cons, beq_self_eq_true, ↓reduceIte]
    cases hr : (c0 :: u0).reverse with
    | nil => simp at hr
    | cons c r =>
      have hc : c ≠ '.' := by
        intro h
        apply h2
        rw [← List.head?_reverse, hr, h]; rfl
      simp only [List.dropWhile_cons, beq_iff_eq, hc, ↓reduceIte]
      rw [← hr]; simp

/-- outside ~Parameter: a unit written with a trailing period loses it -/
theorem parse_trailing_dot_ok (sec : SecName) (hsec : sec ≠ .parameter) (A unit V D : Str)
    (hA : A ≠ []) (hAdot : ∀ c ∈ A, c ≠ '.') (hAcolon : ∀ c ∈ A, c ≠ ':')
    (hu : ∀ c ∈ unit, isPySpace c = false)
    (hufirst : unit.head? ≠ some '.') (hulast : unit.getLast? ≠ some '.')
    (hV : ∀ c, V.head? = some c → isPySpace c = true)
    (hD : ∀ c ∈ D, c ≠ ':')
    (hcurves : sec = .curves → unit ≠ [] ∧ findDotDot unit = none ∧ findDotDot V = none) :
    parseHeaderLine sec (A ++ '.' :: ((unit ++ ['.']) ++ V ++ ':' :: D)) =
      some ⟨strip A, unit, strip V, strip D⟩ := by
  have hu' : ∀ c ∈ unit ++ ['.'], isPySpace c = false := by
    intro c hc
    rcases List.mem_append.mp hc with h | h
    · exact hu c h
    · have : c = '.' := by simpa using h
      subst this; decide
  have hcap : UnitCap (unit ++ ['.']) (V ++ ':' :: D) :=
    Or.inl ⟨hu', Or.inl ⟨'.', by simp, by decide⟩⟩
  rw [parse_default_ok sec hsec A (unit ++ ['.']) V D hA hAdot hAcolon hcap hV hD ?_]
  · have hs : strip (unit ++ ['.']) = unit ++ ['.'] := strip_nospace _ hu'
    simp [postProcess, grp, hs, stripChar_trailing unit hufirst hulast]
  · intro hcv
    obtain ⟨h1, h2, h3⟩ := hcurves hcv
    apply findDotDot_prefix_none A _ V hAdot _ _ _ h3
    · rw [List.head?_append]
      cases hh : unit.head? with
      | none =>
        have : unit = [] := by simpa using hh
        exact absurd this h1
      | some c => rw [hh] at hufirst; simpa using hufirst
    · exact findDotDot_append_none unit ['.'] h2 (by simp [findDotDot]) (fun h => hulast h.1)
    · intro h
      exact absurd (hV '.' h) (by decide)

end Lasio
