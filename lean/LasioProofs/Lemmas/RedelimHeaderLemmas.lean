import LasioProofs.Lemmas.RedelimLemmas
import LasioProofs.Lemmas.JunkLemmas
/-
C09, whole file `.redelim`: the header step — what the header-level reader `Rd.readLines` returns for the document whose DLM
item (in the ~Version section, the first section of the file) was replaced / inserted.

§1  the ~Version title: kind, parser (provisional version 2.0), routing key; the item the line `DLM. <to> : delimiter` parses to
§2  the items loop on the body with the line replaced / inserted (`bodyRun_ok_iff`)
§3  the steering values `Rd.steer` computes from the two item lists
§4  the sections after ~Version from states that differ in `steer.dlm` and in the value stored under "Version"
§5  `Rd.readLines` on the two documents (`readLines_dlm`)
§6  the data part: the one data section of the file; the document `redelim` produces; the whole file (`readFull_redelim`)
-/
namespace Lasio.Tf
open Lasio Lasio.Dt

/-! ## §1 the ~Version title and the DLM item line -/

/-- the title line opens a ~V… section without underscore (so: a header-items section, parsed as "Version", stored under
"Version") -/
def vTitle (t : Str) : Bool :=
  match Rd.sline t with
  | '~' :: c :: r => upperC c == 'V' && !(upper ('~' :: c :: r)).contains '_'
  | _ => false

/-- the parser of a ~Version section under the provisional version 2.0 -/
def vParser : Rd.Parser := ⟨.metadata, .version, Rd.valueDescr, []⟩

theorem vTitle_shape {t : Str} (h : vTitle t = true) :
    ∃ c r, Rd.sline t = '~' :: c :: r ∧ upperC c = 'V' ∧ '_' ∉ upper ('~' :: c :: r) := by
  unfold vTitle at h
  split at h
  · rename_i c r hs
    simp only [Bool.and_eq_true, Bool.not_eq_true', beq_iff_eq] at h
    refine ⟨c, r, hs, h.1, ?_⟩
    intro hm
    have : (upper ('~' :: c :: r)).contains '_' = true := by simpa using hm
    rw [this] at h
    exact absurd h.2 (by decide)
  · cases h

theorem vTitle_kind {t : Str} (h : vTitle t = true) : kindOf t = .items := by
  obtain ⟨c, r, hs, hc, hu⟩ := vTitle_shape h
  unfold kindOf
  rw [hs]
  have hid : Rd.sline ('~' :: c :: r) = '~' :: c :: r := by rw [← hs, Rd.sline_idem]
  rw [Rd.sectionType_letter c r hid (Rd.underscore_upper _ hu), hc]
  rfl

theorem vTitle_letter {t : Str} (h : vTitle t = true) : Rd.titleLetter (Rd.sline t) = ['V'] := by
  obtain ⟨c, r, hs, hc, _⟩ := vTitle_shape h
  rw [hs]
  simp [Rd.titleLetter, upper, hc]

theorem vTitle_isV {t : Str} (h : vTitle t = true) (b : List Str) : Rd.isV (t, b) = true := by
  have hk : Rd.sectionType (Rd.sline t) = .items := vTitle_kind h
  simp [Rd.isV, hk, vTitle_letter h]

theorem vTitle_route {t : Str} (h : vTitle t = true) (ver : Rd.VerVal) : Rd.routeKey (Rd.sline t) ver = .ok Rd.kVersion := by
  obtain ⟨c, r, hs, hc, hu⟩ := vTitle_shape h
  rw [hs, Rd.routeKey_letter c r ver hu, hc]
  rfl

theorem vTitle_len {t : Str} (h : vTitle t = true) : ¬ (Rd.sline t).length < 2 := by
  obtain ⟨c, r, hs, _, _⟩ := vTitle_shape h
  rw [hs]; simp

/-- the parser `read` builds for the ~Version section while the provisional version is still 2.0 -/
theorem vTitle_parser {t : Str} (h : vTitle t = true) :
    Rd.mkParser (Rd.lineStrip t) (Rd.classifyVer none) = .ok vParser := by
  obtain ⟨c, r, hs, hc, hu⟩ := vTitle_shape h
  have e : Rd.lineStrip t = '~' :: c :: r := by rw [Rd.lineStrip_eq_strip, ← Rd.sline_eq_strip, hs]
  rw [e]
  have hl3 : Rd.isLas3Like ('~' :: c :: r) = false := Rd.isLas3Like_false _ hu
  have ht : upperC '~' = '~' := by decide
  have ey : ∀ y : Char, startsWith ['~', y] (upper ('~' :: c :: r)) = (upperC c == y) := by
    intro y
    simp only [startsWith, upper, List.map_cons, List.isPrefixOf, ht]
    rw [show ('~' == '~') = true by decide, Bool.true_and, Bool.and_true]
    exact Bool.beq_comm
  unfold Rd.mkParser Rd.classifyVer
  simp only [hl3, Bool.and_false, show "~C".toList = ['~', 'C'] from rfl, show "~P".toList = ['~', 'P'] from rfl,
    show "~W".toList = ['~', 'W'] from rfl, show "~V".toList = ['~', 'V'] from rfl, ey, hc]
  rfl


/-- the item the line `DLM. <to> : delimiter` parses to in a ~Version section -/
def dlmItem (mc : Rd.MCase) (to : Dlm) : Rd.RItem := ⟨Rd.applyCase mc "DLM".toList, [], dlmName to, "delimiter".toList⟩

theorem dlmItemLine_solid (to : Dlm) : Solid (dlmItemLine to) := by
  cases to
  · exact ⟨⟨'D', "LM. SPACE : delimiter".toList, rfl, by decide⟩, ⟨"DLM. SPACE : delimite".toList, 'r', rfl, by decide⟩⟩
  · exact ⟨⟨'D', "LM. TAB : delimiter".toList, rfl, by decide⟩, ⟨"DLM. TAB : delimite".toList, 'r', rfl, by decide⟩⟩
  · exact ⟨⟨'D', "LM. COMMA : delimiter".toList, rfl, by decide⟩, ⟨"DLM. COMMA : delimite".toList, 'r', rfl, by decide⟩⟩

theorem strip_dlmLine (to : Dlm) (eol : Str) (he : AllWs eol) : strip (dlmItemLine to ++ eol) = dlmItemLine to := by
  have := strip_sandwich [] (dlmItemLine to) eol allWs_nil he (dlmItemLine_solid to)
  simpa using this

theorem lineRes_dlm_text (mc : Rd.MCase) (ig : Bool) (to : Dlm) :
    (match parseHeaderLine vParser.sec (dlmItemLine to) with
      | none => Rd.LineRes.bad
      | some f => Rd.LineRes.item (Rd.mkItem' vParser { f with name := Rd.applyCase (Rd.ReadOpts.mk ig mc).mnemonicCase f.name })) =
      .item (dlmItem mc to) := by
  cases to <;> cases mc <;> rfl

/-- THE NEW LINE: `DLM. <to> : delimiter` (any terminator) is an item line of the ~Version section -/
theorem lineRes_dlmLine (o : Rd.ReadOpts) (to : Dlm) (eol : Str) (he : AllWs eol) :
    Rd.lineRes o vParser (dlmItemLine to ++ eol) = .item (dlmItem o.mnemonicCase to) := by
  obtain ⟨ig, mc⟩ := o
  unfold Rd.lineRes
  rw [Rd.lineStrip_eq_strip, strip_dlmLine to eol he]
  have h1 : (dlmItemLine to).isEmpty = false := by cases to <;> rfl
  have h2 : ((dlmItemLine to).head? == some '#') = false := by cases to <;> rfl
  have h3 : Rd.startsTilde (dlmItemLine to) = false := by cases to <;> rfl
  simp only [h1, h2, h3, Bool.false_eq_true, if_false]
  exact lineRes_dlm_text mc ig to

theorem lineItem_dlmLine (o : Rd.ReadOpts) (to : Dlm) (eol : Str) (he : AllWs eol) :
    Rd.lineItem o vParser (dlmItemLine to ++ eol) = some (dlmItem o.mnemonicCase to) := by
  unfold Rd.lineItem
  rw [lineRes_dlmLine o to eol he]

theorem dlmLine_not_title (to : Dlm) (eol : Str) (he : AllWs eol) : Rd.isTitle (dlmItemLine to ++ eol) = false := by
  rw [Rd.isTitle_eq, strip_dlmLine to eol he]
  cases to <;> rfl

/-! ## §2 the items loop -/

theorem firstBad_none_iff (o : Rd.ReadOpts) (p : Rd.Parser) (b : List Str) :
    Rd.firstBad o p b = none ↔ ∀ x ∈ b, Rd.lineRes o p x ≠ .bad := by
  induction b with
  | nil => simp [Rd.firstBad]
  | cons l ls ih =>
    simp only [Rd.firstBad, List.mem_cons, forall_eq_or_imp]
    by_cases h : Rd.lineRes o p l = .bad
    · simp [h]
    · simp only [h, if_false, Option.map_eq_none_iff, ih]
      exact ⟨fun a => ⟨h, a⟩, fun a => a.2⟩

/-- the loop over a body succeeds exactly when errors are ignored or no line is unparsable, and then returns the items of the
lines -/
theorem bodyRun_ok_iff (o : Rd.ReadOpts) (p : Rd.Parser) (b : List Str) (n : Nat) (l : List Rd.RItem) :
    Rd.bodyRun o p b n = .ok l ↔
      (o.ignoreHeaderErrors = true ∨ ∀ x ∈ b, Rd.lineRes o p x ≠ .bad) ∧ l = Rd.bodyItems o p b := by
  cases hi : o.ignoreHeaderErrors with
  | true =>
    rw [Rd.bodyRun_ignore o p b n hi]
    simp only [Except.ok.injEq, true_or, true_and]
    exact eq_comm
  | false =>
    rw [Rd.bodyRun_strict o p b n hi]
    cases hf : Rd.firstBad o p b with
    | none =>
      have := (firstBad_none_iff o p b).mp hf
      simp only [Except.ok.injEq, Bool.false_eq_true, false_or]
      exact ⟨fun e => ⟨this, e.symm⟩, fun e => e.2.symm⟩
    | some i =>
      have : ¬ ∀ x ∈ b, Rd.lineRes o p x ≠ .bad := by
        intro hall
        rw [(firstBad_none_iff o p b).mpr hall] at hf
        cases hf
      simp [this]


/-! ## §3 the steering values -/

/-- `mnemonic_compare` translates (upper-cases) unless the mnemonic case is "preserve" -/
abbrev trOf (o : Rd.ReadOpts) : Bool := o.mnemonicCase != .preserve

def dlmKey : Str := "DLM".toList

/-- the item answers to `"DLM" in section` / `section.DLM` as far as its own mnemonic goes -/
def isDlmItem (o : Rd.ReadOpts) (it : Rd.RItem) : Bool := Rd.mcmp (trOf o) (Rd.U it) dlmKey

/-- the line of a ~Version section is an item line whose mnemonic is DLM under the reader's comparison -/
def isDlmLine (o : Rd.ReadOpts) (l : Str) : Bool :=
  match Rd.lineItem o vParser l with
  | some it => isDlmItem o it
  | none => false

theorem dlmItem_isDlm (o : Rd.ReadOpts) (to : Dlm) : isDlmItem o (dlmItem o.mnemonicCase to) = true := by
  unfold isDlmItem trOf
  generalize o.mnemonicCase = mc
  cases mc <;> cases to <;> decide

theorem dlmItem_not_other (o : Rd.ReadOpts) (to : Dlm) (k : Str) (hk : k = "VERS".toList ∨ k = "WRAP".toList) :
    Rd.mcmp (trOf o) (Rd.U (dlmItem o.mnemonicCase to)) k = false := by
  unfold trOf
  generalize o.mnemonicCase = mc
  rcases hk with rfl | rfl <;> cases mc <;> cases to <;> decide

theorem isDlm_not_other (o : Rd.ReadOpts) (it : Rd.RItem) (h : isDlmItem o it = true) (k : Str)
    (hk : k = "VERS".toList ∨ k = "WRAP".toList) : Rd.mcmp (trOf o) (Rd.U it) k = false := by
  unfold isDlmItem at h
  have e := (Rd.mcmp_true_iff _ _ _).mp h
  rw [Rd.mcmp_eq_ck, e]
  rcases hk with rfl | rfl <;> cases trOf o <;> decide

theorem filter_middle {α} (f : α → Bool) (a b : List α) (m : List α) (hm : ∀ x ∈ m, f x = false) :
    (a ++ m ++ b).filter f = a.filter f ++ b.filter f := by
  have : m.filter f = [] := by
    rw [List.filter_eq_nil_iff]
    intro x hx
    simp [hm x hx]
  simp [List.filter_append, this]

/-- VERS and WRAP are looked up alike in the two item lists -/
theorem lookup_other_dlm (o : Rd.ReadOpts) (to : Dlm) (I₁ I₂ : List Rd.RItem) (oi : Option Rd.RItem)
    (hx : ∀ it ∈ oi, isDlmItem o it = true) (k : Str) (hk : k = "VERS".toList ∨ k = "WRAP".toList) :
    Rd.lookupItem (trOf o) (I₁ ++ dlmItem o.mnemonicCase to :: I₂) k = Rd.lookupItem (trOf o) (I₁ ++ oi.toList ++ I₂) k := by
  have hks : k ∈ Rd.steerKeys := by rcases hk with rfl | rfl <;> simp [Rd.steerKeys]
  rw [Rd.lookupItem_eq _ k (Rd.steerKey_nocolon _ k hks), Rd.lookupItem_eq _ k (Rd.steerKey_nocolon _ k hks)]
  have e1 : I₁ ++ dlmItem o.mnemonicCase to :: I₂ = I₁ ++ [dlmItem o.mnemonicCase to] ++ I₂ := by simp
  rw [e1, filter_middle _ I₁ I₂ [dlmItem o.mnemonicCase to] (by
      intro x hx'
      simp only [List.mem_singleton] at hx'
      subst hx'
      exact dlmItem_not_other o to k hk),
    filter_middle _ I₁ I₂ oi.toList (by
      intro x hx'
      exact isDlm_not_other o x (hx x (by simpa using hx')) k hk)]

/-- DLM is found in the new list: the new item, the only one -/
theorem lookup_dlm_new (o : Rd.ReadOpts) (to : Dlm) (I₁ I₂ : List Rd.RItem)
    (huniq : ∀ it ∈ I₁ ++ I₂, isDlmItem o it = false) :
    Rd.lookupItem (trOf o) (I₁ ++ dlmItem o.mnemonicCase to :: I₂) dlmKey = some (dlmItem o.mnemonicCase to) := by
  have hks : dlmKey ∈ Rd.steerKeys := by simp [Rd.steerKeys, dlmKey]
  rw [Rd.lookupItem_eq _ dlmKey (Rd.steerKey_nocolon _ dlmKey hks)]
  have h1 : I₁.filter (fun it => Rd.mcmp (trOf o) (Rd.U it) dlmKey) = [] := by
    rw [List.filter_eq_nil_iff]
    intro x hx
    have := huniq x (List.mem_append_left _ hx)
    unfold isDlmItem at this
    simp [this]
  have h2 : I₂.filter (fun it => Rd.mcmp (trOf o) (Rd.U it) dlmKey) = [] := by
    rw [List.filter_eq_nil_iff]
    intro x hx
    have := huniq x (List.mem_append_right _ hx)
    unfold isDlmItem at this
    simp [this]
  have h3 : Rd.mcmp (trOf o) (Rd.U (dlmItem o.mnemonicCase to)) dlmKey = true := dlmItem_isDlm o to
  simp [List.filter_append, h1, h2, h3, Rd.uniq]

/-- the steering values computed from the ~Version section with the DLM item replaced / inserted: the old ones, but for `dlm` -/
theorem steer_dlm (o : Rd.ReadOpts) (T : Str) (to : Dlm) (I₁ I₂ : List Rd.RItem) (oi : Option Rd.RItem) (s : Rd.Steer)
    (hT : Rd.titleLetter T = ['V']) (hx : ∀ it ∈ oi, isDlmItem o it = true)
    (huniq : ∀ it ∈ I₁ ++ I₂, isDlmItem o it = false) :
    Rd.steer o T (I₁ ++ dlmItem o.mnemonicCase to :: I₂) s =
      { Rd.steer o T (I₁ ++ oi.toList ++ I₂) s with dlm := some (dlmName to) } := by
  have h1 := lookup_other_dlm o to I₁ I₂ oi hx "VERS".toList (Or.inl rfl)
  have h2 := lookup_other_dlm o to I₁ I₂ oi hx "WRAP".toList (Or.inr rfl)
  have h3 := lookup_dlm_new o to I₁ I₂ huniq
  unfold Rd.steer
  simp only [hT, beq_self_eq_true, if_true]
  simp only [trOf, dlmKey] at h1 h2 h3
  rw [h1, h2, h3]
  simp [Rd.orKeep, dlmItem]

/-! ## §4 the sections after ~Version -/

theorem sectionType_other_letter (T : Str) (h : Rd.sectionType T = .other) :
    upper ((Rd.sline T).take 2) = ['~', 'O'] := by
  unfold Rd.sectionType at h
  dsimp only at h
  split at h
  · cases h
  · split at h
    · rename_i h2
      have : upper ((Rd.sline T).take 2) = "~O".toList := by simpa using h2
      exact this
    · split at h <;> cases h

theorem secKey_ne_version (tb : Str × List Str) (hv : Rd.isV tb = false) (ver : Rd.VerVal) (k : Rd.RKey)
    (h : Rd.secKey ver tb = some k) : k ≠ Rd.kVersion := by
  have hdrop : ∀ T : Str, Rd.titleLetter T ≠ ['V'] → T.drop 1 ≠ Rd.kVersion := by
    intro T hT e
    apply hT
    unfold Rd.titleLetter
    rw [e]
    decide
  unfold Rd.secKey at h
  cases hk : Rd.sectionType (Rd.sline tb.1) with
  | items =>
    have hV : Rd.titleLetter (Rd.sline tb.1) ≠ ['V'] := by
      intro e
      simp [Rd.isV, hk, e] at hv
    have hVb : (Rd.titleLetter (Rd.sline tb.1) == ['V']) = false := by simpa using hV
    simp only [hk] at h
    split at h
    · cases h
    · cases hr : Rd.routeKey (Rd.sline tb.1) ver with
      | error e => simp [hr, Except.toOption] at h
      | ok k' =>
        simp only [hr, Except.toOption, Option.some.injEq] at h
        subst h
        unfold Rd.routeKey at hr
        simp only [hVb] at hr
        split at hr
        · cases hr; decide
        · split at hr
          · cases hr; decide
          · split at hr
            · cases hr
            · split at hr
              · cases hr; exact hdrop _ hV
              · simp only [Bool.false_eq_true, if_false] at hr
                split at hr
                · cases hr; decide
                · cases hr; exact hdrop _ hV
  | other =>
    simp only [hk, Option.some.injEq] at h
    subst h
    unfold Rd.routeKeyOther
    split
    · decide
    · apply hdrop
      intro e
      -- an "other" section has the title letter O
      have hO := sectionType_other_letter _ hk
      rw [Rd.sline_idem] at hO
      unfold Rd.titleLetter at e
      match hs : Rd.sline tb.1 with
      | [] => rw [hs] at hO; simp [upper] at hO
      | [a] => rw [hs] at hO; simp [upper] at hO
      | a :: b :: r =>
        rw [hs] at hO e
        simp only [List.take, upper, List.map_cons, List.map_nil, List.drop_succ_cons, List.drop_zero] at hO e
        have h1 : upperC b = 'O' := by
          have := List.cons.inj hO
          exact (List.cons.inj this.2).1
        have h2 : upperC b = 'V' := (List.cons.inj e).1
        rw [h1] at h2
        exact absurd h2 (by decide)
  | data => simp [hk] at h
  | las3data => simp [hk] at h

/-- ONE SECTION that is not a ~V section, read from two states whose steering values differ in `dlm` only (`D` in the second),
with the same `curvesPlain` flag and `P`-related section maps: the same outcome, the relations stay -/
theorem docSection_D (D : Option Str) (Q : Rd.RKey → Prop)
    (P : List (Rd.RKey × Option Rd.SecVal) → List (Rd.RKey × Option Rd.SecVal) → Prop) (hP : AssignClosed Q P)
    (o : Rd.ReadOpts) (n n' : Nat) (tb : Str × List Str) (st st' r : Rd.RState) (hv : Rd.isV tb = false)
    (hQ : ∀ ver k, Rd.secKey ver tb = some k → Q k)
    (hs : st'.steer = { st.steer with dlm := D }) (hc : st.curvesPlain = st'.curvesPlain) (hp : P st.sections st'.sections)
    (h : Rd.docSection o n tb st = .ok r) :
    ∃ r', Rd.docSection o n' tb st' = .ok r' ∧ r'.steer = { r.steer with dlm := D } ∧ r.curvesPlain = r'.curvesPlain ∧
      P r.sections r'.sections := by
  have hvers : st'.steer.vers = st.steer.vers := by rw [hs]
  unfold Rd.docSection at h ⊢
  cases hk : Rd.sectionType (Rd.sline tb.1) with
  | items =>
    have hV : (Rd.titleLetter (Rd.sline tb.1) == ['V']) = false := by simpa [Rd.isV, hk] using hv
    simp only [hk] at h ⊢
    rw [hvers]
    cases hp' : Rd.mkParser (Rd.lineStrip tb.1) (Rd.classifyVer st.steer.vers) with
    | error e => simp [hp'] at h
    | ok p =>
      simp only [hp'] at h ⊢
      cases hb : Rd.bodyRun o p tb.2 n with
      | error e => simp [hb] at h
      | ok items =>
        simp only [hb] at h
        rw [Rd.bodyRun_ok_indep o p tb.2 n n' items hb]
        simp only
        obtain ⟨k, hlen, hr, rfl⟩ := Rd.finishItems_ok o _ items st r h
        have hqk : Q k := by
          apply hQ (Rd.classifyVer (Rd.steer o (Rd.sline tb.1) items st.steer).vers) k
          unfold Rd.secKey
          simp only [hk, hlen, if_false, hr]
          rfl
        have hst : Rd.steer o (Rd.sline tb.1) items st'.steer = { Rd.steer o (Rd.sline tb.1) items st.steer with dlm := D } := by
          rw [Rd.steer_nonV o _ items st'.steer hV, Rd.steer_nonV o _ items st.steer hV, hs]
        have hr' : Rd.routeKey (Rd.sline tb.1) (Rd.classifyVer (Rd.steer o (Rd.sline tb.1) items st'.steer).vers) = .ok k := by
          rw [hst]; exact hr
        rw [Rd.finishItems_of o _ items st' k hlen hr']
        refine ⟨_, rfl, ?_, ?_, ?_⟩
        · exact hst
        · simp only [hvers, hc]
        · exact hP k _ _ _ hqk hp
  | other =>
    simp only [hk] at h ⊢
    cases h
    have hqk : Q (Rd.routeKeyOther (Rd.sline tb.1)) := by
      apply hQ .bad
      unfold Rd.secKey
      simp only [hk]
    exact ⟨_, rfl, hs, hc, hP _ _ _ _ hqk hp⟩
  | data =>
    simp only [hk] at h ⊢
    cases h
    exact ⟨_, rfl, hs, hc, hp⟩
  | las3data =>
    simp only [hk] at h ⊢
    cases h
    exact ⟨_, rfl, hs, hc, hp⟩

/-- … and a list of such sections -/
theorem docSections_D (D : Option Str) (Q : Rd.RKey → Prop)
    (P : List (Rd.RKey × Option Rd.SecVal) → List (Rd.RKey × Option Rd.SecVal) → Prop) (hP : AssignClosed Q P)
    (o : Rd.ReadOpts) (secs : List (Str × List Str)) (n n' : Nat) (st st' r : Rd.RState)
    (hv : ∀ tb ∈ secs, Rd.isV tb = false) (hQ : ∀ tb ∈ secs, ∀ ver k, Rd.secKey ver tb = some k → Q k)
    (hs : st'.steer = { st.steer with dlm := D }) (hc : st.curvesPlain = st'.curvesPlain) (hp : P st.sections st'.sections)
    (h : Rd.docSections o secs n st = .ok r) :
    ∃ r', Rd.docSections o secs n' st' = .ok r' ∧ r'.steer = { r.steer with dlm := D } ∧ r.curvesPlain = r'.curvesPlain ∧
      P r.sections r'.sections := by
  induction secs generalizing n n' st st' with
  | nil =>
    simp only [Rd.docSections] at h ⊢
    cases h
    exact ⟨st', rfl, hs, hc, hp⟩
  | cons tb rest ih =>
    simp only [Rd.docSections] at h ⊢
    cases hd : Rd.docSection o n tb st with
    | error e => simp [hd] at h
    | ok s1 =>
      simp only [hd] at h
      obtain ⟨s1', h1, h2, h3, h4⟩ :=
        docSection_D D Q P hP o n n' tb st st' s1 (hv tb List.mem_cons_self) (hQ tb List.mem_cons_self) hs hc hp hd
      simp only [h1]
      exact ih _ _ s1 s1' (fun x hx => hv x (List.mem_cons_of_mem _ hx)) (fun x hx => hQ x (List.mem_cons_of_mem _ hx)) h2 h3 h4 h


/-! ## §5 `Rd.readLines` on the two documents -/

theorem dlmOf_dlmName' (to : Dlm) : dlmOf (some (dlmName to)) = to := by
  cases to <;> decide

theorem delimiters_dlmName (to : Dlm) : Rd.delimiters.contains (dlmName to) = true := by
  cases to <;> decide

/-- `finishRead` on two states whose steering values differ in `dlm` (one of the three names in the second) -/
theorem finishRead_D (st st' : Rd.RState) (h : Rd.RHeader) (to : Dlm)
    (hs : st'.steer = { st.steer with dlm := some (dlmName to) }) (hc : st.curvesPlain = st'.curvesPlain)
    (hr : Rd.finishRead st = .ok h) :
    h = ⟨assigned st.sections, st.steer, if st.data.isEmpty then st.las3 else st.data⟩ ∧
    Rd.finishRead st' = .ok ⟨assigned st'.sections, { st.steer with dlm := some (dlmName to) },
      if st'.data.isEmpty then st'.las3 else st'.data⟩ := by
  have hh : h = ⟨assigned st.sections, st.steer, if st.data.isEmpty then st.las3 else st.data⟩ ∧ st.curvesPlain = false := by
    unfold Rd.finishRead at hr
    generalize (!_ : Bool) = A at hr
    cases A with
    | true => simp at hr
    | false =>
      by_cases h2 : st.curvesPlain = true
      · simp [h2] at hr
      · simp only [Bool.false_eq_true, if_false, h2] at hr
        cases hr
        exact ⟨rfl, by simpa using h2⟩
  refine ⟨hh.1, ?_⟩
  unfold Rd.finishRead
  rw [← hc, hh.2, hs]
  simp only [delimiters_dlmName, Bool.not_true, Bool.false_eq_true, if_false]
  rfl

theorem bodyItems_option (o : Rd.ReadOpts) (p : Rd.Parser) (ox : Option Str) :
    Rd.bodyItems o p ox.toList = (ox.bind (Rd.lineItem o p)).toList := by
  cases ox with
  | none => rfl
  | some x =>
    simp only [Option.toList_some, Rd.bodyItems, List.filterMap_cons, List.filterMap_nil, Option.bind_some]
    cases Rd.lineItem o p x <;> rfl

theorem mem_bodyItems (o : Rd.ReadOpts) (p : Rd.Parser) (b : List Str) (it : Rd.RItem) (h : it ∈ Rd.bodyItems o p b) :
    ∃ l ∈ b, Rd.lineItem o p l = some it := by
  unfold Rd.bodyItems at h
  exact List.mem_filterMap.mp h

/-- HEADER PART, whole file. The ~Version section is the first section of the document; its body is `l₁ ++ ox.toList ++ l₂`
(`ox = some x`: the DLM item line that is replaced; `ox = none`: a line is inserted), no other line of it is a DLM item, no
other section is a ~V section.  With the line `DLM. <to> : delimiter` in that place the header-level reader returns the same
steering values but for `dlm`, the sections related by `JRel` — only the value stored under "Version" differs: the item list
with the one item replaced / inserted —, and the data windows of the respective document. -/
theorem readLines_dlm (o : Rd.ReadOpts) (pre : List Str) (tV : Str) (l₁ l₂ : List Str) (ox : Option Str) (eol : Str) (to : Dlm)
    (B : List (Str × List Str)) (hpre : ∀ x ∈ pre, Rd.isTitle x = false)
    (hw : Rd.WellFormed ((tV, l₁ ++ ox.toList ++ l₂) :: B)) (hV : vTitle tV = true) (he : AllWs eol)
    (hB : ∀ tb ∈ B, Rd.isV tb = false)
    (hx : ∀ x ∈ ox, isDlmLine o x = true) (huniq : ∀ l ∈ l₁ ++ l₂, isDlmLine o l = false)
    (h : Rd.RHeader) (hr : Rd.readLines o (pre ++ Rd.flat ((tV, l₁ ++ ox.toList ++ l₂) :: B)) = .ok h) :
    ∃ secs',
      Rd.readLines o (pre ++ Rd.flat ((tV, l₁ ++ (dlmItemLine to ++ eol) :: l₂) :: B)) =
        .ok ⟨secs', { h.steer with dlm := some (dlmName to) },
              docData ((tV, l₁ ++ (dlmItemLine to ++ eol) :: l₂) :: B) pre.length⟩ ∧
      h.data = docData ((tV, l₁ ++ ox.toList ++ l₂) :: B) pre.length ∧
      JRel Rd.kVersion
        (.items (Rd.bodyItems o vParser l₁ ++ (ox.bind (Rd.lineItem o vParser)).toList ++ Rd.bodyItems o vParser l₂))
        (.items (Rd.bodyItems o vParser l₁ ++ dlmItem o.mnemonicCase to :: Rd.bodyItems o vParser l₂)) h.sections secs' ∧
      h.sections.lookup Rd.kVersion =
        some (.items (Rd.bodyItems o vParser l₁ ++ (ox.bind (Rd.lineItem o vParser)).toList ++ Rd.bodyItems o vParser l₂)) ∧
      secs'.lookup Rd.kVersion =
        some (.items (Rd.bodyItems o vParser l₁ ++ dlmItem o.mnemonicCase to :: Rd.bodyItems o vParser l₂)) := by
  -- abbreviations
  generalize hy : dlmItemLine to ++ eol = y
  have hyitem : Rd.lineItem o vParser y = some (dlmItem o.mnemonicCase to) := by rw [← hy]; exact lineItem_dlmLine o to eol he
  have hyres : Rd.lineRes o vParser y = .item (dlmItem o.mnemonicCase to) := by rw [← hy]; exact lineRes_dlmLine o to eol he
  have hynt : Rd.isTitle y = false := by rw [← hy]; exact dlmLine_not_title to eol he
  have hwV := hw (tV, l₁ ++ ox.toList ++ l₂) List.mem_cons_self
  have hw' : Rd.WellFormed ((tV, l₁ ++ y :: l₂) :: B) := by
    intro tb htb
    rcases List.mem_cons.mp htb with rfl | htb
    · refine ⟨hwV.1, ?_⟩
      intro x hx'
      rcases List.mem_append.mp hx' with h1 | h1
      · exact hwV.2 x (by simp [h1])
      · rcases List.mem_cons.mp h1 with rfl | h1
        · exact hynt
        · exact hwV.2 x (by simp [h1])
    · exact hw tb (List.mem_cons_of_mem _ htb)
  -- the two item lists
  have hitems : Rd.bodyItems o vParser (l₁ ++ ox.toList ++ l₂) =
      Rd.bodyItems o vParser l₁ ++ (ox.bind (Rd.lineItem o vParser)).toList ++ Rd.bodyItems o vParser l₂ := by
    rw [Rd.bodyItems_append, Rd.bodyItems_append, bodyItems_option]
  have hitems' : Rd.bodyItems o vParser (l₁ ++ y :: l₂) =
      Rd.bodyItems o vParser l₁ ++ dlmItem o.mnemonicCase to :: Rd.bodyItems o vParser l₂ := by
    rw [bodyItems_insert, hyitem]
    simp
  have hxi : ∀ it ∈ ox.bind (Rd.lineItem o vParser), isDlmItem o it = true := by
    intro it hit
    cases ox with
    | none => simp at hit
    | some x =>
      simp only [Option.bind_some] at hit
      have := hx x rfl
      unfold isDlmLine at this
      have hit' : Rd.lineItem o vParser x = some it := hit
      rw [hit'] at this
      exact this
  have hun : ∀ it ∈ Rd.bodyItems o vParser l₁ ++ Rd.bodyItems o vParser l₂, isDlmItem o it = false := by
    intro it hit
    rw [← Rd.bodyItems_append] at hit
    obtain ⟨l, hl, hli⟩ := mem_bodyItems o vParser _ it hit
    have := huniq l hl
    unfold isDlmLine at this
    rw [hli] at this
    exact this
  have hk : Rd.sectionType (Rd.sline tV) = .items := vTitle_kind hV
  have hp : Rd.mkParser (Rd.lineStrip tV) (Rd.classifyVer Rd.RState.init.steer.vers) = .ok vParser := vTitle_parser hV
  rw [readLines_struct o pre _ hpre hw (by simp)] at hr
  rw [readLines_struct o pre _ hpre hw' (by simp)]
  cases hd : Rd.docSections o ((tV, l₁ ++ ox.toList ++ l₂) :: B) pre.length Rd.RState.init with
  | error e => rw [hd] at hr; cases hr
  | ok st =>
    rw [hd] at hr
    simp only at hr
    have hwin := docSections_wins o _ _ _ st hd
    simp only [Rd.docSections] at hd
    cases hT : Rd.docSection o pre.length (tV, l₁ ++ ox.toList ++ l₂) Rd.RState.init with
    | error e => rw [hT] at hd; cases hd
    | ok s2 =>
      rw [hT] at hd
      simp only at hd
      -- the ~Version section of the original document
      unfold Rd.docSection at hT
      simp only [hk, hp] at hT
      cases hb : Rd.bodyRun o vParser (l₁ ++ ox.toList ++ l₂) pre.length with
      | error e => simp only [hb] at hT; cases hT
      | ok items =>
        simp only [hb] at hT
        obtain ⟨hcond, hie⟩ := (bodyRun_ok_iff o vParser _ _ _).mp hb
        obtain ⟨k, hlen, hroute, hs2⟩ := Rd.finishItems_ok o _ items Rd.RState.init s2 hT
        rw [vTitle_route hV] at hroute
        have hkv : k = Rd.kVersion := by cases hroute; rfl
        subst hkv
        -- the ~Version section of the new document
        have hcond' : o.ignoreHeaderErrors = true ∨ ∀ x ∈ l₁ ++ y :: l₂, Rd.lineRes o vParser x ≠ .bad := by
          rcases hcond with hc | hc
          · exact Or.inl hc
          · right
            intro x hx'
            rcases List.mem_append.mp hx' with h1 | h1
            · exact hc x (by simp [h1])
            · rcases List.mem_cons.mp h1 with rfl | h1
              · rw [hyres]; intro e; cases e
              · exact hc x (by simp [h1])
        have hb' : Rd.bodyRun o vParser (l₁ ++ y :: l₂) pre.length = .ok (Rd.bodyItems o vParser (l₁ ++ y :: l₂)) :=
          (bodyRun_ok_iff o vParser _ _ _).mpr ⟨hcond', rfl⟩
        have hsteer : Rd.steer o (Rd.sline tV) (Rd.bodyItems o vParser (l₁ ++ y :: l₂)) Rd.RState.init.steer =
            { Rd.steer o (Rd.sline tV) items Rd.RState.init.steer with dlm := some (dlmName to) } := by
          rw [hitems', hie, hitems]
          exact steer_dlm o _ to _ _ _ _ (vTitle_letter hV) hxi hun
        have hT' : Rd.docSection o pre.length (tV, l₁ ++ y :: l₂) Rd.RState.init =
            .ok { Rd.RState.init with
                    steer := { Rd.steer o (Rd.sline tV) items Rd.RState.init.steer with dlm := some (dlmName to) },
                    sections := Rd.assign Rd.kVersion (.items (Rd.bodyItems o vParser (l₁ ++ y :: l₂))) Rd.RState.init.sections,
                    curvesPlain := Rd.RState.init.curvesPlain } := by
          unfold Rd.docSection
          simp only [hk, hp, hb']
          rw [Rd.finishItems_of o _ _ Rd.RState.init Rd.kVersion hlen (vTitle_route hV _), hsteer]
          rfl
        have hs2c : s2.curvesPlain = Rd.RState.init.curvesPlain := by rw [hs2]; rfl
        have hs2s : s2.sections = Rd.assign Rd.kVersion (.items items) Rd.RState.init.sections := by rw [hs2]
        have hs2t : s2.steer = Rd.steer o (Rd.sline tV) items Rd.RState.init.steer := by rw [hs2]
        -- the sections after it
        obtain ⟨st', hB', hst', hc', hrel⟩ := docSections_D (some (dlmName to)) (fun _ => True)
          (JRelO Rd.kVersion (.items items) (.items (Rd.bodyItems o vParser (l₁ ++ y :: l₂))))
          (fun k2 v m m' _ hm => jrelO_assign Rd.kVersion _ _ k2 v m m' hm) o B _
          (pre.length + 1 + (l₁ ++ y :: l₂).length) s2
          { Rd.RState.init with
              steer := { Rd.steer o (Rd.sline tV) items Rd.RState.init.steer with dlm := some (dlmName to) },
              sections := Rd.assign Rd.kVersion (.items (Rd.bodyItems o vParser (l₁ ++ y :: l₂))) Rd.RState.init.sections,
              curvesPlain := Rd.RState.init.curvesPlain }
          st hB (fun _ _ _ _ _ => trivial) (by rw [hs2t]) hs2c
          (by rw [hs2s]; exact jrelO_assign_diff Rd.kVersion _ _ _) hd
        have hd' : Rd.docSections o ((tV, l₁ ++ y :: l₂) :: B) pre.length Rd.RState.init = .ok st' := by
          simp only [Rd.docSections, hT']
          exact hB'
        have hwin' := docSections_wins o _ _ _ st' hd'
        rw [hd']
        simp only
        obtain ⟨f1, f2⟩ := finishRead_D st st' h to hst' hc' hr
        refine ⟨assigned st'.sections, ?_, ?_, ?_, ?_⟩
        · rw [f2, f1]
          simp only [hwin'.1, hwin'.2, Rd.RState.init, List.nil_append]
          rfl
        · rw [f1]
          simp only [hwin.1, hwin.2, Rd.RState.init, List.nil_append]
          rfl
        · rw [f1, ← hitems, ← hie, ← hitems']
          exact jrel_assigned Rd.kVersion _ _ _ _ hrel
        · -- no later section is stored under "Version"
          obtain ⟨st'', hB'', _, _, hl1, hl2⟩ := docSections_D (some (dlmName to)) (fun k' => k' ≠ Rd.kVersion)
            (fun m m' => (assigned m).lookup Rd.kVersion = some (.items items) ∧
              (assigned m').lookup Rd.kVersion = some (.items (Rd.bodyItems o vParser (l₁ ++ y :: l₂))))
            (fun k2 v m m' hne hm =>
              ⟨by rw [assigned_lookup_other Rd.kVersion k2 v m (Ne.symm hne)]; exact hm.1,
               by rw [assigned_lookup_other Rd.kVersion k2 v m' (Ne.symm hne)]; exact hm.2⟩) o B _
            (pre.length + 1 + (l₁ ++ y :: l₂).length) s2
            { Rd.RState.init with
                steer := { Rd.steer o (Rd.sline tV) items Rd.RState.init.steer with dlm := some (dlmName to) },
                sections := Rd.assign Rd.kVersion (.items (Rd.bodyItems o vParser (l₁ ++ y :: l₂))) Rd.RState.init.sections,
                curvesPlain := Rd.RState.init.curvesPlain }
            st hB (fun tb htb ver k' hk' => secKey_ne_version tb (hB tb htb) ver k' hk') (by rw [hs2t]) hs2c
            (by rw [hs2s]; exact ⟨assigned_lookup_same Rd.kVersion _ _, assigned_lookup_same Rd.kVersion _ _⟩) hd
          rw [hB'] at hB''
          cases hB''
          rw [f1, ← hitems, ← hie, ← hitems']
          exact ⟨hl1, hl2⟩


/-! ## §6 the data part and the whole file -/

theorem dataWins_none (k : Rd.SecKind) (hk : isDataKind k) (S : List (Str × List Str))
    (h : ∀ tb ∈ S, ¬ isDataKind (kindOf tb.1)) (n : Nat) : dataWins k S n = [] := by
  induction S generalizing n with
  | nil => rfl
  | cons tb rest ih =>
    have hne : ¬ kindOf tb.1 = k := by
      intro e
      exact h tb List.mem_cons_self (e ▸ hk)
    simp only [dataWins, secWin, hne, if_false, List.nil_append]
    exact ih (fun x hx => h x (List.mem_cons_of_mem _ hx)) _

/-- the data windows of a document with ONE data section -/
theorem docData_single (A C : List (Str × List Str)) (t : Str) (b : List Str) (hk : isDataKind (kindOf t))
    (hA : ∀ tb ∈ A, ¬ isDataKind (kindOf tb.1)) (hC : ∀ tb ∈ C, ¬ isDataKind (kindOf tb.1)) (n : Nat) :
    docData (A ++ (t, b) :: C) n = [(n + Rd.size A, n + Rd.size A + b.length, Rd.sline t)] := by
  have hw : ∀ k, isDataKind k → dataWins k (A ++ (t, b) :: C) n =
      if kindOf t = k then [(n + Rd.size A, n + Rd.size A + b.length, Rd.sline t)] else [] := by
    intro k hkk
    rw [dataWins_append, dataWins_none k hkk A hA]
    simp only [List.nil_append, dataWins, secWin]
    rw [dataWins_none k hkk C hC]
    simp
  unfold docData
  rw [hw .data (Or.inl rfl), hw .las3data (Or.inr rfl)]
  rcases hk with hk | hk
  · simp [hk]
  · simp [hk]

theorem vTitle_not_data {t : Str} (h : vTitle t = true) : ¬ isDataKind (kindOf t) := by
  rw [vTitle_kind h]
  intro hh
  rcases hh with hh | hh <;> cases hh

theorem dataKind_not_isV (t : Str) (b : List Str) (hk : isDataKind (kindOf t)) : Rd.isV (t, b) = false := by
  have : Rd.sectionType (Rd.sline t) ≠ .items := by
    intro e
    have e' : kindOf t = .items := e
    rw [e'] at hk
    rcases hk with hk | hk <;> cases hk
  simp [Rd.isV, this]

/-- the record of the one data section of a document given by its parts -/
theorem readFull_single (o : Opts) (nullOf : Option Str → Option Str) (ft : FloatTable) (pre : List Str)
    (A C : List (Str × List Str)) (t : Str) (b : List Str) (h : Rd.RHeader)
    (hr : Rd.readLines o.hdr (pre ++ Rd.flat (A ++ (t, b) :: C)) = .ok h)
    (hd : h.data = [(pre.length + Rd.size A, pre.length + Rd.size A + b.length, Rd.sline t)]) :
    readFull o nullOf ft (pre ++ Rd.flat (A ++ (t, b) :: C)) =
      .ok ⟨h.sections, h.steer, [⟨pre.length + Rd.size A, pre.length + Rd.size A + b.length,
        readBody o.dat (dtSteer nullOf h.steer) (declaredCount h.sections) ft b (Rd.flat C)⟩]⟩ := by
  unfold readFull
  rw [hr]
  simp only [hd, List.map_cons, List.map_nil]
  have hA : (pre ++ Rd.flat A).length = pre.length + Rd.size A := by simp [size_eq_flat_length]
  have e : pre ++ Rd.flat (A ++ (t, b) :: C) = (pre ++ Rd.flat A) ++ t :: (b ++ Rd.flat C) := by
    simp [flat_append, Rd.flat]
  rw [e, ← hA, readData_window]

/-- the two whole-file reads, given what the header-level reader returns for the two documents (one data section each) -/
theorem readFull_redelim_aux (o : Opts) (nullOf : Option Str → Option Str) (ft : FloatTable) (htf : TildeNotFloat ft)
    (pre : List Str) (tV : Str) (bV bV' : List Str) (to : Dlm) (M s₂ : List (Str × List Str)) (t : Str) (body body' : List Str)
    (h H' : Rd.RHeader) (r : FullRead)
    (hpre : ∀ x ∈ pre, Rd.isTitle x = false)
    (hw : Rd.WellFormed ((tV, bV) :: M ++ (t, body) :: s₂)) (hw2 : Rd.WellFormed ((tV, bV') :: M ++ (t, body') :: s₂))
    (hV : vTitle tV = true) (hM : ∀ tb ∈ M ++ s₂, ¬ isDataKind (kindOf tb.1)) (hk : isDataKind (kindOf t))
    (hh : Rd.readLines o.hdr (pre ++ Rd.flat ((tV, bV) :: M ++ (t, body) :: s₂)) = .ok h)
    (hr2 : Rd.readLines o.hdr (pre ++ Rd.flat ((tV, bV') :: M ++ (t, body') :: s₂)) = .ok H')
    (hsteer : H'.steer = { h.steer with dlm := some (dlmName to) })
    (hdat : h.data = docData ((tV, bV) :: M ++ (t, body) :: s₂) pre.length)
    (hdat' : H'.data = docData ((tV, bV') :: M ++ (t, body') :: s₂) pre.length)
    (hdc : declaredCount H'.sections = declaredCount h.sections)
    (hcurves : ∀ after, AfterOK ft after →
      (readBody o.dat (withDlm (dtSteer nullOf h.steer) to) (declaredCount h.sections) ft body' after).map Prod.snd =
        (readBody o.dat (dtSteer nullOf h.steer) (declaredCount h.sections) ft body after).map Prod.snd)
    (hag' : AgreeAlone o.dat (withDlm (dtSteer nullOf h.steer) to) (declaredCount h.sections) ft body')
    (hread : readFull o nullOf ft (pre ++ Rd.flat ((tV, bV) :: M ++ (t, body) :: s₂)) = .ok r) :
    r.sections = h.sections ∧ r.steer = h.steer ∧
    ∃ r', Base o nullOf ft (pre ++ Rd.flat ((tV, bV') :: M ++ (t, body') :: s₂)) r' ∧ r'.steer = H'.steer ∧
      r'.sections = H'.sections ∧ r'.data.map (fun x => x.res.map Prod.snd) = r.data.map (fun x => x.res.map Prod.snd) := by
  have hMs : ∀ tb ∈ M, ¬ isDataKind (kindOf tb.1) := fun tb h => hM tb (List.mem_append_left _ h)
  have hCnd : ∀ tb ∈ s₂, ¬ isDataKind (kindOf tb.1) := fun tb h => hM tb (List.mem_append_right _ h)
  have hAnd : ∀ b, ∀ tb ∈ (tV, b) :: M, ¬ isDataKind (kindOf tb.1) := by
    intro b tb htb
    rcases List.mem_cons.mp htb with rfl | htb
    · exact vTitle_not_data hV
    · exact hMs tb htb
  have hd0 : h.data = [(pre.length + Rd.size ((tV, bV) :: M), pre.length + Rd.size ((tV, bV) :: M) + body.length, Rd.sline t)] := by
    rw [hdat]
    exact docData_single ((tV, bV) :: M) s₂ t body hk (hAnd _) hCnd pre.length
  have hd2 : H'.data = [(pre.length + Rd.size ((tV, bV') :: M), pre.length + Rd.size ((tV, bV') :: M) + body'.length, Rd.sline t)] := by
    rw [hdat']
    exact docData_single ((tV, bV') :: M) s₂ t body' hk (hAnd _) hCnd pre.length
  have hr0 := readFull_single o nullOf ft pre ((tV, bV) :: M) s₂ t body h hh hd0
  have hr2' := readFull_single o nullOf ft pre ((tV, bV') :: M) s₂ t body' H' hr2 hd2
  have hreq : Except.ok r = Except.ok _ := hread.symm.trans hr0
  have hreq' := Except.ok.inj hreq
  subst hreq'
  have hst : dtSteer nullOf H'.steer = withDlm (dtSteer nullOf h.steer) to := by
    rw [hsteer]
    simp only [dtSteer, withDlm, dlmOf_dlmName']
  rw [hdc, hst] at hr2'
  have hw₂ : Rd.WellFormed s₂ := fun tb htb =>
    hw tb (List.mem_cons_of_mem _ (List.mem_append_right _ (List.mem_cons_of_mem _ htb)))
  refine ⟨rfl, rfl, _, ⟨hr2', ?_⟩, rfl, rfl, ?_⟩
  · rw [parse_struct pre _ hpre hw2]
    intro tb htb hkk
    simp only [hdc, hst]
    rcases List.mem_cons.mp htb with rfl | htb
    · exact absurd hkk (vTitle_not_data hV)
    · rcases List.mem_append.mp htb with h1 | h1
      · exact absurd hkk (hMs tb h1)
      · rcases List.mem_cons.mp h1 with rfl | h1
        · exact hag'
        · exact absurd hkk (hCnd tb h1)
  · simp only [List.map_cons, List.map_nil]
    rw [hcurves _ (afterOK_flat ft htf s₂ hw₂)]

/-- WHOLE FILE on the document structure. The ~Version section is the first section (body `l₁ ++ ox.toList ++ l₂`; `ox = some x`:
the DLM item line, to be replaced; `ox = none`: a line is inserted between `l₁` and `l₂`), `(t, body)` is the only data section,
no other section is a ~V section.  The second document has the line `DLM. <to> : delimiter` in that place and the body re-laid
for the delimiter `to`. -/
theorem readFull_redelim_core (o : Opts) (nullOf : Option Str → Option Str) (ft : FloatTable) (htf : TildeNotFloat ft)
    (pre : List Str) (tV : Str) (l₁ l₂ : List Str) (ox : Option Str) (eol : Str) (frm to : Dlm) (c : Nat) (seps : List Str)
    (M s₂ : List (Str × List Str)) (t : Str) (body : List Str) (r : FullRead)
    (hpre : ∀ x ∈ pre, Rd.isTitle x = false)
    (hw : Rd.WellFormed ((tV, l₁ ++ ox.toList ++ l₂) :: M ++ (t, body) :: s₂)) (hV : vTitle tV = true) (he : AllWs eol)
    (hM : ∀ tb ∈ M ++ s₂, Rd.isV tb = false ∧ ¬ isDataKind (kindOf tb.1)) (hk : isDataKind (kindOf t))
    (hx : ∀ x ∈ ox, isDlmLine o.hdr x = true) (huniq : ∀ l ∈ l₁ ++ l₂, isDlmLine o.hdr l = false)
    (hb : Base o nullOf ft (pre ++ Rd.flat ((tV, l₁ ++ ox.toList ++ l₂) :: M ++ (t, body) :: s₂)) r)
    (hfrm : (dtSteer nullOf r.steer).delimiter = frm)
    (hnb : numBody frm c body = true) (hs : SepsOK to seps)
    (hS : FtStripOn ft (normalTokens (readSubs frm) frm body))
    (hS' : FtStripOn ft (normalTokens (readSubs to) to (relayBody frm to seps body)))
    (hC : Converts ft (normalTokens (readSubs frm) frm body))
    (hag' : AgreeAlone o.dat (withDlm (dtSteer nullOf r.steer) to) (declaredCount r.sections) ft (relayBody frm to seps body)) :
    ∃ r', Base o nullOf ft
        (pre ++ Rd.flat ((tV, l₁ ++ (dlmItemLine to ++ eol) :: l₂) :: M ++ (t, relayBody frm to seps body) :: s₂)) r' ∧
      r'.steer = { r.steer with dlm := some (dlmName to) } ∧
      JRel Rd.kVersion
        (.items (Rd.bodyItems o.hdr vParser l₁ ++ (ox.bind (Rd.lineItem o.hdr vParser)).toList ++ Rd.bodyItems o.hdr vParser l₂))
        (.items (Rd.bodyItems o.hdr vParser l₁ ++ dlmItem o.hdr.mnemonicCase to :: Rd.bodyItems o.hdr vParser l₂))
        r.sections r'.sections ∧
      r.sections.lookup Rd.kVersion =
        some (.items (Rd.bodyItems o.hdr vParser l₁ ++ (ox.bind (Rd.lineItem o.hdr vParser)).toList ++
          Rd.bodyItems o.hdr vParser l₂)) ∧
      r'.sections.lookup Rd.kVersion =
        some (.items (Rd.bodyItems o.hdr vParser l₁ ++ dlmItem o.hdr.mnemonicCase to :: Rd.bodyItems o.hdr vParser l₂)) ∧
      r'.data.map (fun x => x.res.map Prod.snd) = r.data.map (fun x => x.res.map Prod.snd) := by
  have hMs : ∀ tb ∈ M, Rd.isV tb = false ∧ ¬ isDataKind (kindOf tb.1) := fun tb h => hM tb (List.mem_append_left _ h)
  have hs₂ : ∀ tb ∈ s₂, Rd.isV tb = false ∧ ¬ isDataKind (kindOf tb.1) := fun tb h => hM tb (List.mem_append_right _ h)
  have hread := hb.read
  cases hh : Rd.readLines o.hdr (pre ++ Rd.flat ((tV, l₁ ++ ox.toList ++ l₂) :: M ++ (t, body) :: s₂)) with
  | error e => unfold readFull at hread; rw [hh] at hread; cases hread
  | ok h =>
    -- step 1: the body re-laid
    have hh1 := readLines_relayBody o.hdr pre ((tV, l₁ ++ ox.toList ++ l₂) :: M) s₂ t body frm to c seps hpre hw hk hnb hs h hh
    have hbnt : ∀ x ∈ relayBody frm to seps body, Rd.isTitle x = false :=
      relayBody_no_title frm to c seps body hnb hs
        (hw (t, body) (List.mem_cons_of_mem _ (List.mem_append_right _ List.mem_cons_self))).2
    have hlen := relayBody_length frm to seps body
    have hrelB : BodyRel frm to c body (relayBody frm to seps body) := bodyRel_relayBody frm to c seps body hnb hs
    have hynt := dlmLine_not_title to eol he
    -- from here on the new line and the new body are opaque
    generalize relayBody frm to seps body = body' at *
    generalize hy : dlmItemLine to ++ eol = y at *
    have hw1 : Rd.WellFormed ((tV, l₁ ++ ox.toList ++ l₂) :: M ++ (t, body') :: s₂) := by
      intro tb htb
      rcases List.mem_cons.mp htb with rfl | htb
      · exact hw _ List.mem_cons_self
      · rcases List.mem_append.mp htb with h1 | h1
        · exact hw tb (List.mem_cons_of_mem _ (List.mem_append_left _ h1))
        · rcases List.mem_cons.mp h1 with rfl | h1
          · exact ⟨(hw (t, body) (List.mem_cons_of_mem _ (List.mem_append_right _ List.mem_cons_self))).1, hbnt⟩
          · exact hw tb (List.mem_cons_of_mem _ (List.mem_append_right _ (List.mem_cons_of_mem _ h1)))
    have hB1 : ∀ tb ∈ M ++ (t, body') :: s₂, Rd.isV tb = false := by
      intro tb htb
      rcases List.mem_append.mp htb with h1 | h1
      · exact (hMs tb h1).1
      · rcases List.mem_cons.mp h1 with rfl | h1
        · exact dataKind_not_isV t _ hk
        · exact (hs₂ tb h1).1
    -- step 2: the DLM item
    obtain ⟨secs', hr2, hdat, hrel, hl1, hl2⟩ :=
      readLines_dlm o.hdr pre tV l₁ l₂ ox eol to (M ++ (t, body') :: s₂) hpre hw1 hV he hB1 hx huniq h hh1
    rw [hy] at hr2
    obtain ⟨H', hH'⟩ : ∃ H' : Rd.RHeader, H' = Rd.RHeader.mk secs' { h.steer with dlm := some (dlmName to) }
      (docData ((tV, l₁ ++ y :: l₂) :: M ++ (t, body') :: s₂) pre.length) := ⟨_, rfl⟩
    have hr2c : Rd.readLines o.hdr (pre ++ Rd.flat ((tV, l₁ ++ y :: l₂) :: M ++ (t, body') :: s₂)) = .ok H' := by
      rw [hH']; exact hr2
    have e1 : H'.sections = secs' := by rw [hH']
    have e2 : H'.steer = { h.steer with dlm := some (dlmName to) } := by rw [hH']
    have e3 : H'.data = docData ((tV, l₁ ++ y :: l₂) :: M ++ (t, body') :: s₂) pre.length := by rw [hH']
    have hdat0 : h.data = docData ((tV, l₁ ++ ox.toList ++ l₂) :: M ++ (t, body) :: s₂) pre.length := by
      rw [hdat]
      show docData (((tV, l₁ ++ ox.toList ++ l₂) :: M) ++ (t, body') :: s₂) pre.length = _
      unfold docData
      rw [dataWins_body_congr .data ((tV, l₁ ++ ox.toList ++ l₂) :: M) s₂ t body body' hlen,
        dataWins_body_congr .las3data ((tV, l₁ ++ ox.toList ++ l₂) :: M) s₂ t body body' hlen]
    have hw2 : Rd.WellFormed ((tV, l₁ ++ y :: l₂) :: M ++ (t, body') :: s₂) := by
      intro tb htb
      rcases List.mem_cons.mp htb with rfl | htb
      · have hwV := hw (tV, l₁ ++ ox.toList ++ l₂) List.mem_cons_self
        refine ⟨hwV.1, ?_⟩
        intro x hx'
        rcases List.mem_append.mp hx' with h1 | h1
        · exact hwV.2 x (by simp [h1])
        · rcases List.mem_cons.mp h1 with rfl | h1
          · exact hynt
          · exact hwV.2 x (by simp [h1])
      · exact hw1 tb (List.mem_cons_of_mem _ htb)
    have hdc : declaredCount H'.sections = declaredCount h.sections := by
      rw [e1]
      exact jrel_declaredCount Rd.kVersion _ _ _ _ hrel (Or.inl (by decide))
    -- the original read
    have hrs : r.sections = h.sections ∧ r.steer = h.steer := by
      unfold readFull at hread
      rw [hh] at hread
      cases hread
      exact ⟨rfl, rfl⟩
    rw [hrs.1, hrs.2] at hag'
    rw [hrs.2] at hfrm
    have hag : AgreeAlone o.dat (dtSteer nullOf h.steer) (declaredCount h.sections) ft body := by
      have := hb.agree
      rw [parse_struct pre _ hpre hw, hrs.1, hrs.2] at this
      exact this (t, body) (List.mem_cons_of_mem _ (List.mem_append_right _ List.mem_cons_self)) hk
    have hcurves : ∀ after, AfterOK ft after →
        (readBody o.dat (withDlm (dtSteer nullOf h.steer) to) (declaredCount h.sections) ft body' after).map Prod.snd =
          (readBody o.dat (dtSteer nullOf h.steer) (declaredCount h.sections) ft body after).map Prod.snd := by
      intro after hafter
      have hrelB' : BodyRel (dtSteer nullOf h.steer).delimiter to c body body' := by rw [hfrm]; exact hrelB
      rw [readBody_alone _ _ _ ft _ _ hafter hag, readBody_alone _ _ _ ft _ _ hafter hag',
        normalRead_rel o.dat (dtSteer nullOf h.steer) to _ ft hrelB' (by rw [hfrm]; exact hS) hS' (by rw [hfrm]; exact hC)]
    obtain ⟨g1, g2, r', hb', g3, g4, g5⟩ := readFull_redelim_aux o nullOf ft htf pre tV _ _ to M s₂ t body body' h H' r hpre hw hw2 hV
      (fun tb htb => (hM tb htb).2) hk hh hr2c e2 hdat0 e3 hdc hcurves hag' hread
    refine ⟨r', hb', ?_, ?_, ?_, ?_, g5⟩
    · rw [g3, e2, g2]
    · rw [g1, g4, e1]; exact hrel
    · rw [g1]; exact hl1
    · rw [g4, e1]; exact hl2


/-! ### the document `redelim` produces, on the document structure -/

theorem terminate_of_last (d : Doc) (h : ∀ x, d.getLast? = some x → x.getLast? = some '\n') : terminate d = d := by
  induction d with
  | nil => rfl
  | cons a rest ih =>
    cases rest with
    | nil =>
      have := h a rfl
      simp [terminate, termLine, this]
    | cons b rest' =>
      simp only [terminate]
      rw [ih (fun x hx => h x (by simpa [List.getLast?_cons_cons] using hx))]

theorem flat_cons_head (tV : Str) (bV : List Str) (M : List (Str × List Str)) :
    Rd.flat ((tV, bV) :: M) = tV :: (bV ++ Rd.flat M) := by simp [Rd.flat]

/-- REPLACE: line `vk = |pre| + 1 + |l₁|` is the line `x` of the ~Version body -/
theorem redelim_struct_replace (pre : List Str) (tV : Str) (l₁ l₂ : List Str) (x : Str) (M s₂ : List (Str × List Str)) (t : Str)
    (body : List Str) (frm to : Dlm) (seps : List Str) :
    redelim (pre.length + Rd.size ((tV, l₁ ++ x :: l₂) :: M)) (pre.length + Rd.size ((tV, l₁ ++ x :: l₂) :: M) + body.length)
        (pre.length + 1 + l₁.length) true frm to seps (pre ++ Rd.flat ((tV, l₁ ++ x :: l₂) :: M ++ (t, body) :: s₂)) =
      pre ++ Rd.flat ((tV, l₁ ++ (dlmItemLine to ++ (splitEol x).2) :: l₂) :: M ++ (t, relayBody frm to seps body) :: s₂) := by
  have hA : (pre ++ Rd.flat ((tV, l₁ ++ x :: l₂) :: M)).length = pre.length + Rd.size ((tV, l₁ ++ x :: l₂) :: M) := by
    simp [size_eq_flat_length]
  have e : ∀ (bV b : List Str), pre ++ Rd.flat ((tV, bV) :: M ++ (t, b) :: s₂) =
      (pre ++ Rd.flat ((tV, bV) :: M)) ++ t :: (b ++ Rd.flat s₂) := by
    intro bV b; simp [flat_append, Rd.flat]
  have hvk : pre.length + 1 + l₁.length < (pre ++ Rd.flat ((tV, l₁ ++ x :: l₂) :: M)).length := by
    simp [flat_cons_head]; omega
  rw [e, ← hA, redelim_window _ t body (Rd.flat s₂) _ true frm to seps (Nat.le_of_lt hvk) (fun _ => hvk), e]
  congr 1
  unfold redelimHead
  simp only [if_true]
  have e2 : ∀ z, pre ++ Rd.flat ((tV, l₁ ++ z :: l₂) :: M) = (pre ++ tV :: l₁) ++ z :: (l₂ ++ Rd.flat M) := by
    intro z; simp [flat_cons_head]
  have hl : pre.length + 1 + l₁.length = (pre ++ tV :: l₁).length + 0 := by simp; omega
  rw [e2, e2, hl, mapAt_append_right]
  rfl

/-- INSERT: the new line goes before line `vk = |pre| + 1 + |l₁|` (between `l₁` and `l₂` of the ~Version body); the line
before it ends with a line feed -/
theorem redelim_struct_insert (pre : List Str) (tV : Str) (l₁ l₂ : List Str) (M s₂ : List (Str × List Str)) (t : Str)
    (body : List Str) (frm to : Dlm) (seps : List Str)
    (hterm : ∀ x, (tV :: l₁).getLast? = some x → x.getLast? = some '\n') :
    redelim (pre.length + Rd.size ((tV, l₁ ++ l₂) :: M)) (pre.length + Rd.size ((tV, l₁ ++ l₂) :: M) + body.length)
        (pre.length + 1 + l₁.length) false frm to seps (pre ++ Rd.flat ((tV, l₁ ++ l₂) :: M ++ (t, body) :: s₂)) =
      pre ++ Rd.flat ((tV, l₁ ++ (dlmItemLine to ++ nl) :: l₂) :: M ++ (t, relayBody frm to seps body) :: s₂) := by
  have hA : (pre ++ Rd.flat ((tV, l₁ ++ l₂) :: M)).length = pre.length + Rd.size ((tV, l₁ ++ l₂) :: M) := by
    simp [size_eq_flat_length]
  have e : ∀ (bV b : List Str), pre ++ Rd.flat ((tV, bV) :: M ++ (t, b) :: s₂) =
      (pre ++ Rd.flat ((tV, bV) :: M)) ++ t :: (b ++ Rd.flat s₂) := by
    intro bV b; simp [flat_append, Rd.flat]
  have hvk : pre.length + 1 + l₁.length ≤ (pre ++ Rd.flat ((tV, l₁ ++ l₂) :: M)).length := by
    simp [flat_cons_head]; omega
  rw [e, ← hA, redelim_window _ t body (Rd.flat s₂) _ false frm to seps hvk (fun h => by cases h), e]
  congr 1
  unfold redelimHead insLine
  simp only [Bool.false_eq_true, if_false]
  have e2 : pre ++ Rd.flat ((tV, l₁ ++ l₂) :: M) = (pre ++ tV :: l₁) ++ (l₂ ++ Rd.flat M) := by simp [flat_cons_head]
  have hl : pre.length + 1 + l₁.length = (pre ++ tV :: l₁).length := by simp; omega
  rw [e2, hl, List.take_left, List.drop_left]
  rw [terminate_of_last]
  · simp [flat_cons_head]
  · intro x hx
    apply hterm x
    rw [← hx, List.getLast?_append]
    cases hh : (tV :: l₁).getLast? with
    | none => simp at hh
    | some z => rfl

end Lasio.Tf

#print axioms Lasio.Tf.readLines_dlm
#print axioms Lasio.Tf.readFull_redelim_core
#print axioms Lasio.Tf.redelim_struct_replace
#print axioms Lasio.Tf.redelim_struct_insert
