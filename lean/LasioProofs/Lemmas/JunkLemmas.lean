import LasioProofs.Lemmas.TransformSim
import LasioProofs.Props.C19
/-
Lemmas for the WHOLE-FILE form of C19 (LasioProofs/Props/C19File.lean): one extra line `j` (not a title line) inside the body
of a header-items section of a document read with `ignore_header_errors=True`.

§1 the key a section is stored under: which titles go to "Curves"
§2 the section maps of two reads that differ in one stored value (`JRelO`, `JRel`)
§3 the section loop: `docSections` on an appended list, on related states, and on the section that received `j`
§4 the header-level reader on the two documents (`readLines_junk`)
§5 the data sections: `readData` of a window does not depend on what stands behind the next title line
§5b the windows behind the extra line move down by one (`shiftWin`, `shiftData`)
§6 the whole file on the document structure (`readFull_junk`)
§7 from a split list of lines to the document structure (`split_doc`, `tailBody`, `headBody`)
§8 no header error at file level; what a line parses to; executable side conditions (`unparsableLine`, `harmlessLine`)
-/
namespace Lasio.Rd

/-! ## §1 titles stored under "Curves" -/

/-- las.py:299-301: the title line `t` opens a section that `read` stores under "Curves"
(`~C…` without underscore, or `~Log_Definition…`) -/
def curvesTitle (t : Str) : Bool :=
  (titleLetter (sline t) == ['C'] && !(sline t).contains '_') || contains "~Log_Definition".toList (sline t)

theorem drop1_not_curves (title : Str) (ht : startsTilde title = true)
    (hc : ((titleLetter title == ['C'] && !title.contains '_') || contains "~Log_Definition".toList title) = false) :
    title.drop 1 ≠ kCurves := by
  intro e
  obtain ⟨r, rfl⟩ := (startsTilde_iff title).mp ht
  simp only [List.drop_succ_cons, List.drop_zero] at e
  subst e
  revert hc
  decide

/-- a section whose title is not a "Curves" title is stored under another key -/
theorem routeKey_not_curves (title : Str) (ver : VerVal) (k : RKey) (ht : startsTilde title = true)
    (hc : ((titleLetter title == ['C'] && !title.contains '_') || contains "~Log_Definition".toList title) = false)
    (h : routeKey title ver = .ok k) : k ≠ kCurves := by
  have hd := drop1_not_curves title ht hc
  unfold routeKey at h
  simp only [hc, Bool.false_eq_true, if_false] at h
  split at h
  · cases h; decide
  · split at h
    · cases h
    · split at h
      · cases h; exact hd
      · split at h
        · cases h; decide
        · split at h
          · cases h; decide
          · cases h; exact hd

/-! ### `finishItems` spelled out -/

theorem finishItems_ok (o : ReadOpts) (title : Str) (items : List RItem) (st r : RState)
    (h : finishItems o title items st = .ok r) :
    ∃ k, ¬ title.length < 2 ∧ routeKey title (classifyVer (steer o title items st.steer).vers) = .ok k ∧
      r = { st with steer := steer o title items st.steer, sections := assign k (.items items) st.sections,
                    curvesPlain := if k == kCurves then !isCurvesParser title (classifyVer st.steer.vers) && !items.isEmpty
                                   else st.curvesPlain } := by
  unfold finishItems at h
  split at h
  · cases h
  · rename_i hlen
    cases hr : routeKey title (classifyVer (steer o title items st.steer).vers) with
    | error e => simp [hr] at h
    | ok k =>
      simp only [hr] at h
      cases h
      exact ⟨k, hlen, rfl, rfl⟩

theorem finishItems_of (o : ReadOpts) (title : Str) (items : List RItem) (st : RState) (k : RKey)
    (hlen : ¬ title.length < 2) (hr : routeKey title (classifyVer (steer o title items st.steer).vers) = .ok k) :
    finishItems o title items st =
      .ok { st with steer := steer o title items st.steer, sections := assign k (.items items) st.sections,
                    curvesPlain := if k == kCurves then !isCurvesParser title (classifyVer st.steer.vers) && !items.isEmpty
                                   else st.curvesPlain } := by
  unfold finishItems
  simp only [hlen, if_false, hr]

end Lasio.Rd

/-! ## §2 section maps that differ in one stored value -/
namespace Lasio.Tf
open Lasio Lasio.Dt

/-- the relation of one entry: same key; same value, or — under the key `k` — the value `old` here and `new` there -/
def JEntry {β} (k : Rd.RKey) (old new : β) (kv kv' : Rd.RKey × β) : Prop :=
  kv.1 = kv'.1 ∧ (kv.2 = kv'.2 ∨ (kv.1 = k ∧ kv.2 = old ∧ kv'.2 = new))

/-- `las.sections` while `read` runs (values `none` = default not yet replaced): entry by entry the same keys in the same
order, the same values except that an entry under `k` may hold `old` in the first and `new` in the second map -/
def JRelO (k : Rd.RKey) (old new : Rd.SecVal) (m m' : List (Rd.RKey × Option Rd.SecVal)) : Prop :=
  Forall2 (JEntry k (some old) (some new)) m m'

/-- the same for the sections `read` returns -/
def JRel (k : Rd.RKey) (old new : Rd.SecVal) (s s' : List (Rd.RKey × Rd.SecVal)) : Prop :=
  Forall2 (JEntry k old new) s s'

theorem forall2_refl {α} (R : α → α → Prop) (hR : ∀ a, R a a) (l : List α) : Forall2 R l l := by
  induction l with
  | nil => exact .nil
  | cons a l ih => exact .cons (hR a) ih

theorem jentry_refl {β} (k : Rd.RKey) (old new : β) (kv : Rd.RKey × β) : JEntry k old new kv kv := ⟨rfl, Or.inl rfl⟩

theorem jrelO_refl (k : Rd.RKey) (old new : Rd.SecVal) (m : List (Rd.RKey × Option Rd.SecVal)) : JRelO k old new m m :=
  forall2_refl _ (jentry_refl k _ _) m

/-- the same assignment on both sides keeps the relation -/
theorem jrelO_assign (k : Rd.RKey) (old new : Rd.SecVal) (k2 : Rd.RKey) (v : Rd.SecVal)
    (m m' : List (Rd.RKey × Option Rd.SecVal)) (h : JRelO k old new m m') :
    JRelO k old new (Rd.assign k2 v m) (Rd.assign k2 v m') := by
  unfold JRelO at h ⊢
  induction h with
  | nil => exact .cons ⟨rfl, Or.inl rfl⟩ .nil
  | @cons kv kv' l l' hkv hrest ih =>
    obtain ⟨a, x⟩ := kv
    obtain ⟨a', x'⟩ := kv'
    have ha : a = a' := hkv.1
    subst ha
    simp only [Rd.assign]
    by_cases hk : (a == k2) = true
    · simp only [hk, if_true]
      exact .cons ⟨rfl, Or.inl rfl⟩ hrest
    · simp only [hk, Bool.false_eq_true, if_false]
      exact .cons hkv ih

/-- the section that received the extra line: `old` is stored in one run, `new` in the other, under the same key -/
theorem jrelO_assign_diff (k : Rd.RKey) (old new : Rd.SecVal) (m : List (Rd.RKey × Option Rd.SecVal)) :
    JRelO k old new (Rd.assign k old m) (Rd.assign k new m) := by
  unfold JRelO
  induction m with
  | nil => exact .cons ⟨rfl, Or.inr ⟨rfl, rfl, rfl⟩⟩ .nil
  | cons kv rest ih =>
    obtain ⟨a, x⟩ := kv
    simp only [Rd.assign]
    by_cases hk : (a == k) = true
    · simp only [hk, if_true]
      have : a = k := by simpa using hk
      exact .cons ⟨rfl, Or.inr ⟨this, rfl, rfl⟩⟩ (forall2_refl _ (jentry_refl k _ _) rest)
    · simp only [hk, Bool.false_eq_true, if_false]
      exact .cons (jentry_refl k _ _ _) ih

/-- the keys `read` has assigned, with their values (`finishRead`) -/
def assigned (m : List (Rd.RKey × Option Rd.SecVal)) : List (Rd.RKey × Rd.SecVal) :=
  m.filterMap (fun kv => kv.2.map fun v => (kv.1, v))

/-- the value `read` returns for a key that has just been assigned -/
theorem assigned_lookup_same (k : Rd.RKey) (v : Rd.SecVal) (m : List (Rd.RKey × Option Rd.SecVal)) :
    (assigned (Rd.assign k v m)).lookup k = some v := by
  induction m with
  | nil => simp [assigned, Rd.assign]
  | cons kv rest ih =>
    obtain ⟨a, x⟩ := kv
    simp only [Rd.assign]
    by_cases hk : (a == k) = true
    · have hak : a = k := by simpa using hk
      subst hak
      simp [assigned]
    · have hk' : (k == a) = false := by
        have : a ≠ k := by simpa using hk
        simpa using fun e => this e.symm
      simp only [hk, Bool.false_eq_true, if_false]
      cases x with
      | none => simpa [assigned] using ih
      | some y =>
        simp only [assigned, List.filterMap_cons, Option.map_some, List.lookup, hk'] at ih ⊢
        exact ih

/-- … and for another key -/
theorem assigned_lookup_other (k k2 : Rd.RKey) (v : Rd.SecVal) (m : List (Rd.RKey × Option Rd.SecVal)) (hne : k ≠ k2) :
    (assigned (Rd.assign k2 v m)).lookup k = (assigned m).lookup k := by
  induction m with
  | nil =>
    have : (k == k2) = false := by simpa using hne
    simp [assigned, Rd.assign, List.lookup, this]
  | cons kv rest ih =>
    obtain ⟨a, x⟩ := kv
    simp only [Rd.assign]
    by_cases hk : (a == k2) = true
    · have hak : a = k2 := by simpa using hk
      subst hak
      have hka : (k == a) = false := by simpa using hne
      simp only [hk, if_true]
      cases x with
      | none => simp [assigned, List.lookup, hka]
      | some y => simp [assigned, List.lookup, hka]
    · simp only [hk, Bool.false_eq_true, if_false]
      cases x with
      | none => simpa [assigned] using ih
      | some y =>
        simp only [assigned, List.filterMap_cons, Option.map_some, List.lookup] at ih ⊢
        cases (k == a) with
        | true => rfl
        | false => exact ih

theorem jrel_assigned (k : Rd.RKey) (old new : Rd.SecVal) (m m' : List (Rd.RKey × Option Rd.SecVal))
    (h : JRelO k old new m m') : JRel k old new (assigned m) (assigned m') := by
  unfold JRelO at h
  unfold JRel assigned
  induction h with
  | nil => exact .nil
  | @cons kv kv' l l' hkv _ ih =>
    obtain ⟨a, x⟩ := kv
    obtain ⟨a', x'⟩ := kv'
    obtain ⟨ha, hx⟩ := hkv
    simp only at ha hx
    subst ha
    rcases hx with hx | ⟨hak, h1, h2⟩
    · subst hx
      cases x with
      | none => simpa [List.filterMap_cons] using ih
      | some v =>
        simp only [List.filterMap_cons, Option.map_some]
        exact .cons ⟨rfl, Or.inl rfl⟩ ih
    · subst h1; subst h2
      simp only [List.filterMap_cons, Option.map_some]
      exact .cons ⟨rfl, Or.inr ⟨hak, rfl, rfl⟩⟩ ih

theorem jrel_keys (k : Rd.RKey) (old new : Rd.SecVal) (s s' : List (Rd.RKey × Rd.SecVal)) (h : JRel k old new s s') :
    s'.map Prod.fst = s.map Prod.fst := by
  unfold JRel at h
  induction h with
  | nil => rfl
  | cons hkv _ ih => simp only [List.map_cons, ih, hkv.1]

/-- nothing changed when the old and the new value are the same -/
theorem jrel_same (k : Rd.RKey) (v : Rd.SecVal) (s s' : List (Rd.RKey × Rd.SecVal)) (h : JRel k v v s s') : s' = s := by
  unfold JRel at h
  induction h with
  | nil => rfl
  | @cons kv kv' l l' hkv _ ih =>
    obtain ⟨a, x⟩ := kv
    obtain ⟨a', x'⟩ := kv'
    obtain ⟨ha, hx⟩ := hkv
    simp only at ha hx
    subst ha
    rcases hx with hx | ⟨_, h1, h2⟩
    · rw [hx, ih]
    · rw [h1, h2, ih]

/-- looking a key up: the same value in both maps, or — for the key `k` — `old` in the first and `new` in the second -/
theorem jrel_lookup (k : Rd.RKey) (old new : Rd.SecVal) (s s' : List (Rd.RKey × Rd.SecVal)) (h : JRel k old new s s')
    (k2 : Rd.RKey) :
    s'.lookup k2 = s.lookup k2 ∨ (k2 = k ∧ s.lookup k2 = some old ∧ s'.lookup k2 = some new) := by
  unfold JRel at h
  induction h with
  | nil => left; rfl
  | @cons kv kv' l l' hkv _ ih =>
    obtain ⟨a, x⟩ := kv
    obtain ⟨a', x'⟩ := kv'
    obtain ⟨ha, hx⟩ := hkv
    simp only at ha hx
    subst ha
    by_cases hk : (k2 == a) = true
    · simp only [List.lookup, hk]
      rcases hx with hx | ⟨hak, h1, h2⟩
      · left; rw [hx]
      · right
        have : k2 = a := by simpa using hk
        exact ⟨this.trans hak, by rw [h1], by rw [h2]⟩
    · have hk' : (k2 == a) = false := by simpa using hk
      simp only [List.lookup, hk']
      exact ih

theorem jrel_lookup_other (k : Rd.RKey) (old new : Rd.SecVal) (s s' : List (Rd.RKey × Rd.SecVal)) (h : JRel k old new s s')
    (k2 : Rd.RKey) (hne : k2 ≠ k) : s'.lookup k2 = s.lookup k2 := by
  rcases jrel_lookup k old new s s' h k2 with h | ⟨h, _⟩
  · exact h
  · exact absurd h hne

/-- the number of declared curves is the same unless the changed value is the one stored under "Curves" -/
theorem jrel_declaredCount (k : Rd.RKey) (old new : Rd.SecVal) (s s' : List (Rd.RKey × Rd.SecVal)) (h : JRel k old new s s')
    (hk : k ≠ Rd.kCurves ∨ new = old) : declaredCount s' = declaredCount s := by
  have : s'.lookup Rd.kCurves = s.lookup Rd.kCurves := by
    rcases jrel_lookup k old new s s' h Rd.kCurves with h | ⟨h1, h2, h3⟩
    · exact h
    · rcases hk with hk | hk
      · exact absurd h1.symm hk
      · rw [h2, h3, hk]
  unfold declaredCount
  rw [this]

end Lasio.Tf

/-! ## §3 the section loop -/
namespace Lasio.Tf
open Lasio Lasio.Dt

theorem size_append (a b : List (Str × List Str)) : Rd.size (a ++ b) = Rd.size a + Rd.size b := by
  rw [size_eq_flat_length, size_eq_flat_length, size_eq_flat_length, flat_append, List.length_append]

/-- the sections of `A`, then those of `C` from the state and the line number reached -/
theorem docSections_append (o : Rd.ReadOpts) (A C : List (Str × List Str)) (n : Nat) (st : Rd.RState) :
    Rd.docSections o (A ++ C) n st =
      match Rd.docSections o A n st with
      | .error e => .error e
      | .ok s => Rd.docSections o C (n + Rd.size A) s := by
  induction A generalizing n st with
  | nil => simp [Rd.docSections, Rd.size]
  | cons tb rest ih =>
    obtain ⟨t, b⟩ := tb
    simp only [List.cons_append, Rd.docSections]
    cases Rd.docSection o n (t, b) st with
    | error e => rfl
    | ok s =>
      simp only
      rw [ih]
      have : n + 1 + b.length + Rd.size rest = n + Rd.size ((t, b) :: rest) := by simp [Rd.size]; omega
      rw [this]

/-- a relation between section maps that the same assignment on both sides keeps, for the keys that satisfy `Q` -/
def AssignClosed (Q : Rd.RKey → Prop)
    (P : List (Rd.RKey × Option Rd.SecVal) → List (Rd.RKey × Option Rd.SecVal) → Prop) : Prop :=
  ∀ k v m m', Q k → P m m' → P (Rd.assign k v m) (Rd.assign k v m')

/-- ONE SECTION — stored, if at all, under a key that satisfies `Q` — read from two states with the same steering values
and `curvesPlain` flag whose section maps are `P`-related, at any two places in the file: the same outcome, the maps stay
related. -/
theorem docSection_P (Q : Rd.RKey → Prop)
    (P : List (Rd.RKey × Option Rd.SecVal) → List (Rd.RKey × Option Rd.SecVal) → Prop) (hP : AssignClosed Q P)
    (o : Rd.ReadOpts) (n n' : Nat) (tb : Str × List Str) (st st' r : Rd.RState)
    (hQ : ∀ ver k, Rd.secKey ver tb = some k → Q k)
    (hs : st.steer = st'.steer) (hc : st.curvesPlain = st'.curvesPlain) (hp : P st.sections st'.sections)
    (h : Rd.docSection o n tb st = .ok r) :
    ∃ r', Rd.docSection o n' tb st' = .ok r' ∧ r.steer = r'.steer ∧ r.curvesPlain = r'.curvesPlain ∧
      P r.sections r'.sections := by
  unfold Rd.docSection at h ⊢
  cases hk : Rd.sectionType (Rd.sline tb.1) with
  | items =>
    simp only [hk] at h ⊢
    rw [← hs]
    cases hp' : Rd.mkParser (Rd.lineStrip tb.1) (Rd.classifyVer st.steer.vers) with
    | error e => simp [hp'] at h
    | ok p =>
      simp only [hp'] at h ⊢
      cases hb : Rd.bodyRun o p tb.2 n with
      | error e => simp [hb] at h
      | ok items =>
        simp only [hb] at h
        rw [Rd.bodyRun_ok_indep o p tb.2 n n' items hb]
        simp only
        obtain ⟨k, hlen, hr, rfl⟩ := Rd.finishItems_ok o _ items st r h
        have hqk : Q k := by
          apply hQ (Rd.classifyVer (Rd.steer o (Rd.sline tb.1) items st.steer).vers) k
          unfold Rd.secKey
          simp only [hk, hlen, if_false, hr]
          rfl
        rw [hs] at hr
        rw [Rd.finishItems_of o _ items st' k hlen hr]
        refine ⟨_, rfl, ?_, ?_, ?_⟩
        · simp only [hs]
        · simp only [hs, hc]
        · exact hP k _ _ _ hqk hp
  | other =>
    simp only [hk] at h ⊢
    cases h
    have hqk : Q (Rd.routeKeyOther (Rd.sline tb.1)) := by
      apply hQ .bad
      unfold Rd.secKey
      simp only [hk]
    exact ⟨_, rfl, hs, hc, hP _ _ _ _ hqk hp⟩
  | data =>
    simp only [hk] at h ⊢
    cases h
    exact ⟨_, rfl, hs, hc, hp⟩
  | las3data =>
    simp only [hk] at h ⊢
    cases h
    exact ⟨_, rfl, hs, hc, hp⟩

/-- … and a list of sections -/
theorem docSections_P (Q : Rd.RKey → Prop)
    (P : List (Rd.RKey × Option Rd.SecVal) → List (Rd.RKey × Option Rd.SecVal) → Prop) (hP : AssignClosed Q P)
    (o : Rd.ReadOpts) (secs : List (Str × List Str)) (n n' : Nat) (st st' r : Rd.RState)
    (hQ : ∀ tb ∈ secs, ∀ ver k, Rd.secKey ver tb = some k → Q k)
    (hs : st.steer = st'.steer) (hc : st.curvesPlain = st'.curvesPlain) (hp : P st.sections st'.sections)
    (h : Rd.docSections o secs n st = .ok r) :
    ∃ r', Rd.docSections o secs n' st' = .ok r' ∧ r.steer = r'.steer ∧ r.curvesPlain = r'.curvesPlain ∧
      P r.sections r'.sections := by
  induction secs generalizing n n' st st' with
  | nil =>
    simp only [Rd.docSections] at h ⊢
    cases h
    exact ⟨st', rfl, hs, hc, hp⟩
  | cons tb rest ih =>
    simp only [Rd.docSections] at h ⊢
    cases hd : Rd.docSection o n tb st with
    | error e => simp [hd] at h
    | ok s1 =>
      simp only [hd] at h
      obtain ⟨s1', h1, h2, h3, h4⟩ :=
        docSection_P Q P hP o n n' tb st st' s1 (hQ tb List.mem_cons_self) hs hc hp hd
      simp only [h1]
      exact ih _ _ s1 s1' (fun x hx => hQ x (List.mem_cons_of_mem _ hx)) h2 h3 h4 h

/-- the data windows a list of sections leaves in the state -/
theorem docSections_wins (o : Rd.ReadOpts) (secs : List (Str × List Str)) (n : Nat) (st r : Rd.RState)
    (h : Rd.docSections o secs n st = .ok r) :
    r.data = st.data ++ dataWins .data secs n ∧ r.las3 = st.las3 ++ dataWins .las3data secs n := by
  obtain ⟨_, _, _, g3, g4, _, _⟩ :=
    docSections_rel o secs secs n n st st r (forall2_refl _ secRel_refl secs) rfl h
  exact ⟨g3, g4⟩

/-- what the extra line `j` adds to the items of a body -/
theorem bodyItems_insert (o : Rd.ReadOpts) (p : Rd.Parser) (b₁ b₂ : List Str) (j : Str) :
    Rd.bodyItems o p (b₁ ++ j :: b₂) = Rd.bodyItems o p b₁ ++ (Rd.lineItem o p j).toList ++ Rd.bodyItems o p b₂ := by
  rw [Rd.bodyItems_append, show j :: b₂ = [j] ++ b₂ from rfl, Rd.bodyItems_append]
  simp only [Rd.bodyItems, List.filterMap_cons, List.filterMap_nil, List.append_assoc]
  cases Rd.lineItem o p j <;> simp

/-- THE SECTION THAT RECEIVED THE LINE. With `ignore_header_errors` the section `(t, b₁ ++ b₂)` and the section
`(t, b₁ ++ j :: b₂)`, read from the same state, end in states that differ in the value stored for the section only —
provided what `j` parses to is not a steering item, and the section is not stored under "Curves" unless `j` parses to
nothing. -/
theorem docSection_junk (o : Rd.ReadOpts) (n n' : Nat) (t : Str) (b₁ b₂ : List Str) (j : Str) (st r : Rd.RState)
    (hi : o.ignoreHeaderErrors = true) (ht : Rd.isTitle t = true) (hk : kindOf t = .items)
    (hcur : Rd.curvesTitle t = false ∨ ∀ ver p, Rd.mkParser (Rd.lineStrip t) ver = .ok p → Rd.lineItem o p j = none)
    (hst : ∀ ver p x, Rd.mkParser (Rd.lineStrip t) ver = .ok p → Rd.lineItem o p j = some x → upper x.orig ∉ Rd.steerKeys)
    (h : Rd.docSection o n (t, b₁ ++ b₂) st = .ok r) :
    ∃ p k, Rd.mkParser (Rd.lineStrip t) (Rd.classifyVer st.steer.vers) = .ok p ∧
      (k ≠ Rd.kCurves ∨ Rd.lineItem o p j = none) ∧ (∃ ver', Rd.secKey ver' (t, ([] : List Str)) = some k) ∧
      r.sections = Rd.assign k (.items (Rd.bodyItems o p b₁ ++ Rd.bodyItems o p b₂)) st.sections ∧
      Rd.docSection o n' (t, b₁ ++ j :: b₂) st =
        .ok { r with sections := Rd.assign k
                                  (.items (Rd.bodyItems o p b₁ ++ (Rd.lineItem o p j).toList ++ Rd.bodyItems o p b₂))
                                  st.sections } := by
  have hk' : Rd.sectionType (Rd.sline t) = .items := hk
  unfold Rd.docSection at h ⊢
  simp only [hk'] at h ⊢
  cases hp : Rd.mkParser (Rd.lineStrip t) (Rd.classifyVer st.steer.vers) with
  | error e => simp [hp] at h
  | ok p =>
    simp only [hp] at h ⊢
    rw [Rd.bodyRun_ignore o p _ n hi, Rd.bodyItems_append] at h
    rw [Rd.bodyRun_ignore o p _ n' hi, bodyItems_insert]
    simp only at h ⊢
    obtain ⟨k, hlen, hr, rfl⟩ := Rd.finishItems_ok o _ _ st r h
    -- the steering values computed from the section
    have hsteer : Rd.steer o (Rd.sline t) (Rd.bodyItems o p b₁ ++ (Rd.lineItem o p j).toList ++ Rd.bodyItems o p b₂) st.steer =
        Rd.steer o (Rd.sline t) (Rd.bodyItems o p b₁ ++ Rd.bodyItems o p b₂) st.steer := by
      cases hl : Rd.lineItem o p j with
      | none => simp
      | some x =>
        simp only [Option.toList_some, List.append_assoc, List.singleton_append]
        exact Rd.C19_steer o _ _ _ x _ (hst _ p x hp hl)
    have hr' := hr
    rw [← hsteer] at hr'
    rw [Rd.finishItems_of o _ _ st k hlen hr']
    -- the key, and the `curvesPlain` flag
    have hkey : k ≠ Rd.kCurves ∨ Rd.lineItem o p j = none := by
      rcases hcur with hc | hc
      · left
        have hts : Rd.startsTilde (Rd.sline t) = true := ht
        exact Rd.routeKey_not_curves _ _ k hts hc hr
      · right; exact hc _ p hp
    have hsk : ∃ ver', Rd.secKey ver' (t, ([] : List Str)) = some k := by
      refine ⟨Rd.classifyVer (Rd.steer o (Rd.sline t) (Rd.bodyItems o p b₁ ++ Rd.bodyItems o p b₂) st.steer).vers, ?_⟩
      unfold Rd.secKey
      simp only [hk', hlen, if_false, hr]
      rfl
    refine ⟨p, k, rfl, hkey, hsk, rfl, ?_⟩
    rw [hsteer]
    rcases hkey with hkey | hkey
    · have : (k == Rd.kCurves) = false := by simpa using hkey
      simp only [this, Bool.false_eq_true, if_false]
    · simp only [hkey, Option.toList_none, List.append_nil]

end Lasio.Tf

/-! ## §4 the header-level reader on the two documents -/
namespace Lasio.Tf
open Lasio Lasio.Dt

/-- `finishRead` on two states with the same steering values and `curvesPlain` flag -/
theorem finishRead_same (st st' : Rd.RState) (h : Rd.RHeader) (hs : st.steer = st'.steer)
    (hc : st.curvesPlain = st'.curvesPlain) (hr : Rd.finishRead st = .ok h) :
    h = ⟨assigned st.sections, st.steer, if st.data.isEmpty then st.las3 else st.data⟩ ∧
    Rd.finishRead st' = .ok ⟨assigned st'.sections, st.steer, if st'.data.isEmpty then st'.las3 else st'.data⟩ := by
  unfold Rd.finishRead at hr ⊢
  rw [← hs, ← hc]
  generalize (!_ : Bool) = A at hr ⊢
  cases A with
  | true => simp at hr
  | false =>
    by_cases h2 : st.curvesPlain = true
    · simp [h2] at hr
    · simp only [Bool.false_eq_true, if_false, h2] at hr ⊢
      cases hr
      exact ⟨rfl, rfl⟩

theorem wellFormed_insert {A B : List (Str × List Str)} {t : Str} {b₁ b₂ : List Str} {j : Str}
    (hw : Rd.WellFormed (A ++ (t, b₁ ++ b₂) :: B)) (hj : Rd.isTitle j = false) :
    Rd.WellFormed (A ++ (t, b₁ ++ j :: b₂) :: B) := by
  intro tb htb
  rcases List.mem_append.mp htb with h | h
  · exact hw tb (List.mem_append_left _ h)
  · rcases List.mem_cons.mp h with rfl | h
    · have := hw (t, b₁ ++ b₂) (List.mem_append_right _ List.mem_cons_self)
      refine ⟨this.1, ?_⟩
      intro x hx
      rcases List.mem_append.mp hx with hx | hx
      · exact this.2 x (List.mem_append_left _ hx)
      · rcases List.mem_cons.mp hx with rfl | hx
        · exact hj
        · exact this.2 x (List.mem_append_right _ hx)
    · exact hw tb (List.mem_append_right _ (List.mem_cons_of_mem _ h))

/-- HEADER PART, whole file. The document `pre ++ flat (A ++ (t, b₁ ++ b₂) :: B)` and the same document with the line `j`
between `b₁` and `b₂`: the same steering values; the sections related by `JRel` (only the value stored for the section
`t` may differ: the old item list there, the old one with what `j` parses to inserted here); the data windows are those of
the data sections of the respective document. -/
theorem readLines_junk (o : Rd.ReadOpts) (pre : List Str) (A B : List (Str × List Str)) (t : Str) (b₁ b₂ : List Str) (j : Str)
    (hpre : ∀ x ∈ pre, Rd.isTitle x = false) (hw : Rd.WellFormed (A ++ (t, b₁ ++ b₂) :: B)) (hj : Rd.isTitle j = false)
    (hi : o.ignoreHeaderErrors = true) (hk : kindOf t = .items)
    (hcur : Rd.curvesTitle t = false ∨ ∀ ver p, Rd.mkParser (Rd.lineStrip t) ver = .ok p → Rd.lineItem o p j = none)
    (hst : ∀ ver p x, Rd.mkParser (Rd.lineStrip t) ver = .ok p → Rd.lineItem o p j = some x → upper x.orig ∉ Rd.steerKeys)
    (h : Rd.RHeader) (hr : Rd.readLines o (pre ++ Rd.flat (A ++ (t, b₁ ++ b₂) :: B)) = .ok h) :
    ∃ ver p k secs', Rd.mkParser (Rd.lineStrip t) ver = .ok p ∧ (k ≠ Rd.kCurves ∨ Rd.lineItem o p j = none) ∧
      JRel k (.items (Rd.bodyItems o p b₁ ++ Rd.bodyItems o p b₂))
             (.items (Rd.bodyItems o p b₁ ++ (Rd.lineItem o p j).toList ++ Rd.bodyItems o p b₂)) h.sections secs' ∧
      ((∀ tb ∈ B, ∀ ver ver' k', Rd.secKey ver (t, ([] : List Str)) = some k' → Rd.secKey ver' tb ≠ some k') →
        h.sections.lookup k = some (.items (Rd.bodyItems o p b₁ ++ Rd.bodyItems o p b₂)) ∧
        secs'.lookup k = some (.items (Rd.bodyItems o p b₁ ++ (Rd.lineItem o p j).toList ++ Rd.bodyItems o p b₂))) ∧
      h.data = docData (A ++ (t, b₁ ++ b₂) :: B) pre.length ∧
      Rd.readLines o (pre ++ Rd.flat (A ++ (t, b₁ ++ j :: b₂) :: B)) =
        .ok ⟨secs', h.steer, docData (A ++ (t, b₁ ++ j :: b₂) :: B) pre.length⟩ := by
  have hw' := wellFormed_insert hw hj
  have ht : Rd.isTitle t = true := (hw (t, b₁ ++ b₂) (List.mem_append_right _ List.mem_cons_self)).1
  rw [readLines_struct o pre _ hpre hw (by simp)] at hr
  rw [readLines_struct o pre _ hpre hw' (by simp)]
  cases hd : Rd.docSections o (A ++ (t, b₁ ++ b₂) :: B) pre.length Rd.RState.init with
  | error e => rw [hd] at hr; cases hr
  | ok st =>
    rw [hd] at hr
    simp only at hr
    have hwin := docSections_wins o _ _ _ st hd
    -- the sections before, the section itself, the sections after
    rw [docSections_append] at hd
    cases hA : Rd.docSections o A pre.length Rd.RState.init with
    | error e => rw [hA] at hd; cases hd
    | ok s1 =>
      rw [hA] at hd
      simp only [Rd.docSections] at hd
      cases hT : Rd.docSection o (pre.length + Rd.size A) (t, b₁ ++ b₂) s1 with
      | error e => rw [hT] at hd; cases hd
      | ok s2 =>
        rw [hT] at hd
        simp only at hd
        obtain ⟨p, k, hp, hkey, ⟨ver0, hsk⟩, hsec, hT'⟩ :=
          docSection_junk o _ (pre.length + Rd.size A) t b₁ b₂ j s1 s2 hi ht hk hcur hst hT
        obtain ⟨st', hB', hs', hc', hrel⟩ := docSections_P (fun _ => True)
          (JRelO k (.items (Rd.bodyItems o p b₁ ++ Rd.bodyItems o p b₂))
            (.items (Rd.bodyItems o p b₁ ++ (Rd.lineItem o p j).toList ++ Rd.bodyItems o p b₂)))
          (fun k2 v m m' _ hm => jrelO_assign k _ _ k2 v m m' hm) o B _
          (pre.length + Rd.size A + 1 + (b₁ ++ j :: b₂).length) s2
          { s2 with sections := Rd.assign k
                                  (.items (Rd.bodyItems o p b₁ ++ (Rd.lineItem o p j).toList ++ Rd.bodyItems o p b₂))
                                  s1.sections }
          st (fun _ _ _ _ _ => trivial) rfl rfl
          (by rw [hsec]; exact jrelO_assign_diff k _ _ s1.sections) hd
        have hd' : Rd.docSections o (A ++ (t, b₁ ++ j :: b₂) :: B) pre.length Rd.RState.init = .ok st' := by
          rw [docSections_append, hA]
          simp only [Rd.docSections, hT']
          exact hB'
        have hwin' := docSections_wins o _ _ _ st' hd'
        rw [hd']
        simp only
        obtain ⟨f1, f2⟩ := finishRead_same st st' h hs' hc' hr
        refine ⟨_, p, k, assigned st'.sections, hp, hkey, ?_, ?_, ?_, ?_⟩
        · rw [f1]; exact jrel_assigned k _ _ _ _ hrel
        · -- no later section is stored under the same key: the two values are still there at the end
          intro hlast
          obtain ⟨st'', hB'', _, _, hl1, hl2⟩ := docSections_P (fun k' => k' ≠ k)
            (fun m m' => (assigned m).lookup k = some (.items (Rd.bodyItems o p b₁ ++ Rd.bodyItems o p b₂)) ∧
              (assigned m').lookup k =
                some (.items (Rd.bodyItems o p b₁ ++ (Rd.lineItem o p j).toList ++ Rd.bodyItems o p b₂)))
            (fun k2 v m m' hne hm =>
              ⟨by rw [assigned_lookup_other k k2 v m (Ne.symm hne)]; exact hm.1,
               by rw [assigned_lookup_other k k2 v m' (Ne.symm hne)]; exact hm.2⟩) o B _
            (pre.length + Rd.size A + 1 + (b₁ ++ j :: b₂).length) s2
            { s2 with sections := Rd.assign k
                                    (.items (Rd.bodyItems o p b₁ ++ (Rd.lineItem o p j).toList ++ Rd.bodyItems o p b₂))
                                    s1.sections }
            st (fun tb htb ver' k' hk' e => hlast tb htb ver0 ver' k hsk (by rw [hk', e])) rfl rfl
            (by rw [hsec]; exact ⟨assigned_lookup_same k _ _, assigned_lookup_same k _ _⟩) hd
          rw [hB'] at hB''
          cases hB''
          rw [f1]
          exact ⟨hl1, hl2⟩
        · rw [f1]
          simp only [hwin.1, hwin.2, Rd.RState.init, List.nil_append]
          rfl
        · rw [f2, f1]
          simp only [hwin'.1, hwin'.2, Rd.RState.init, List.nil_append]
          rfl

end Lasio.Tf

/-! ## §5 the data sections -/
namespace Lasio.Tf
open Lasio Lasio.Dt

/-- `genfromtxt` on a window that is followed by a line whose first token is not a number (a title line): it answers from
the rows of the body alone when every line of the body is a row, and raises otherwise — whatever else follows. -/
theorem numpy_after_title (ft : FloatTable) (b : List Str) (ln : Str) (rest : List Str) (t : Str) (ts : List Str)
    (htok : npTokens ln = t :: ts) (hnf : toFloat ft t = none) :
    numpyEngineLines ft b.length (b ++ ln :: rest) =
      if (npRows b).length = b.length ∧ 1 ≤ b.length then numpyRows ft b.length (npRows b) else none := by
  have hle := npRows_length_le b
  rw [numpyEngineLines_rows, npRows_append]
  have hrows : npRows (ln :: rest) = (t :: ts) :: npRows rest := by rw [npRows_cons, htok]; rfl
  rw [hrows]
  by_cases heq : (npRows b).length = b.length ∧ 1 ≤ b.length
  · rw [if_pos heq]
    obtain ⟨h1, h2⟩ := heq
    rw [← numpyRows_take ft b.length _ (by omega), ← h1, List.take_left]
  · rw [if_neg heq]
    by_cases hm : b.length < 1
    · simp [numpyRows, hm]
    · exact numpyRows_bad ft _ _ t ts _ (npRows_ne b) (by omega) hnf

theorem readBody_after (o : DataOpts) (st : Steer) (d : Nat) (ft : FloatTable) (b after after' : List Str)
    (h : numpyEngineLines ft b.length (b ++ after) = numpyEngineLines ft b.length (b ++ after')) :
    readBody o st d ft b after = readBody o st d ft b after' := by
  unfold readBody
  rw [h]

/-- sections the DATA reader cannot tell apart: the same title line, and the same body when it is a data section -/
def DRel (tb tb' : Str × List Str) : Prop := tb.1 = tb'.1 ∧ (isDataKind (kindOf tb.1) → tb.2 = tb'.2)

theorem dRel_refl (tb : Str × List Str) : DRel tb tb := ⟨rfl, fun _ => rfl⟩

/-- `readData` of a window does not depend on what stands behind the next title line (engine included) -/
theorem readBody_rest (o : DataOpts) (st : Steer) (d : Nat) (ft : FloatTable) (htf : TildeNotFloat ft) (b : List Str)
    {rest rest' : List (Str × List Str)} (hrel : Forall2 DRel rest rest') (hw : Rd.WellFormed rest) :
    readBody o st d ft b (Rd.flat rest) = readBody o st d ft b (Rd.flat rest') := by
  cases hrel with
  | nil => rfl
  | @cons tb tb' l l' hs _ =>
    obtain ⟨t, x⟩ := tb
    obtain ⟨t', x'⟩ := tb'
    have ht : t = t' := hs.1
    subst ht
    obtain ⟨tok, ts, h1, h2⟩ := title_npTokens t (hw (t, x) List.mem_cons_self).1
    apply readBody_after
    simp only [Rd.flat, List.cons_append]
    rw [numpy_after_title ft b t _ tok ts h1 (htf tok h2), numpy_after_title ft b t _ tok ts h1 (htf tok h2)]

/-- the full result of the data reader on the window `w` of the file `lines` -/
def resOf (o : DataOpts) (st : Steer) (d : Nat) (ft : FloatTable) (lines : List Str) (w : Nat × Nat × Str) :
    Except DErr (Engine × List (Slot × Column)) := readData o lines w.1 w.2.1 st d ft

theorem resOf_secWin (o : DataOpts) (st : Steer) (d : Nat) (ft : FloatTable) (k : Rd.SecKind) (A : List Str) (t : Str)
    (b after : List Str) :
    (secWin k A.length (t, b)).map (resOf o st d ft (A ++ t :: (b ++ after))) =
      if kindOf t = k then [readBody o st d ft b after] else [] := by
  unfold secWin
  split
  · simp only [List.map_cons, List.map_nil, resOf]
    rw [readData_window]
  · rfl

theorem dataWins_length' (k : Rd.SecKind) (secs secs' : List (Str × List Str)) (n n' : Nat)
    (hrel : Forall2 DRel secs secs') : (dataWins k secs n).length = (dataWins k secs' n').length := by
  induction hrel generalizing n n' with
  | nil => rfl
  | @cons tb tb' rest rest' hsec _ ih =>
    have hh : (secWin k n tb).length = (secWin k n' tb').length := by
      simp only [secWin, hsec.1]
      split <;> rfl
    simp only [dataWins, List.length_append]
    rw [ih (n + 1 + tb.2.length) (n' + 1 + tb'.2.length), hh]

/-- the results of the data reader on the windows of kind `k` of two documents whose data sections are the same -/
theorem dataWins_res (o : DataOpts) (ft : FloatTable) (htf : TildeNotFloat ft) (st : Steer) (d : Nat)
    (k : Rd.SecKind) (hk : isDataKind k) {secs secs' : List (Str × List Str)} (hrel : Forall2 DRel secs secs')
    (hw : Rd.WellFormed secs) (lines lines' A A' : List Str)
    (hl : lines = A ++ Rd.flat secs) (hl' : lines' = A' ++ Rd.flat secs') :
    (dataWins k secs A.length).map (resOf o st d ft lines) = (dataWins k secs' A'.length).map (resOf o st d ft lines') := by
  induction hrel generalizing A A' with
  | nil => rfl
  | @cons tb tb' rest rest' hs hrest ih =>
    obtain ⟨t, b⟩ := tb
    obtain ⟨t', b'⟩ := tb'
    have hwr : Rd.WellFormed rest := wellFormed_tail hw
    have g1 : lines = (A ++ t :: b) ++ Rd.flat rest := by rw [hl]; simp [Rd.flat]
    have g2 : lines' = (A' ++ t' :: b') ++ Rd.flat rest' := by rw [hl']; simp [Rd.flat]
    have ih' := ih hwr (A ++ t :: b) (A' ++ t' :: b') g1 g2
    have e1 : (A ++ t :: b).length = A.length + 1 + b.length := by simp; omega
    have e2 : (A' ++ t' :: b').length = A'.length + 1 + b'.length := by simp; omega
    rw [e1, e2] at ih'
    have hhead : (secWin k A.length (t, b)).map (resOf o st d ft lines) =
        (secWin k A'.length (t', b')).map (resOf o st d ft lines') := by
      have h1 : lines = A ++ t :: (b ++ Rd.flat rest) := by rw [hl]; simp [Rd.flat]
      have h2 : lines' = A' ++ t' :: (b' ++ Rd.flat rest') := by rw [hl']; simp [Rd.flat]
      have ht : t = t' := hs.1
      subst ht
      rw [h1, h2, resOf_secWin, resOf_secWin]
      by_cases hkt : kindOf t = k
      · have hb : b = b' := hs.2 (by rw [show kindOf (t, b).1 = kindOf t from rfl, hkt]; exact hk)
        subst hb
        rw [if_pos hkt, if_pos hkt, readBody_rest o st d ft htf b hrest hwr]
      · rw [if_neg hkt, if_neg hkt]
    simp only [dataWins, List.map_append]
    rw [ih', hhead]

theorem docData_res (o : DataOpts) (ft : FloatTable) (htf : TildeNotFloat ft) (st : Steer) (d : Nat)
    {secs secs' : List (Str × List Str)} (hrel : Forall2 DRel secs secs') (hw : Rd.WellFormed secs) (A A' : List Str) :
    (docData secs A.length).map (resOf o st d ft (A ++ Rd.flat secs)) =
    (docData secs' A'.length).map (resOf o st d ft (A' ++ Rd.flat secs')) := by
  have hlen := dataWins_length' .data secs secs' A.length A'.length hrel
  have he : (dataWins .data secs A.length).isEmpty = (dataWins .data secs' A'.length).isEmpty := by
    cases h1 : dataWins .data secs A.length <;> cases h2 : dataWins .data secs' A'.length <;> simp [h1, h2] at hlen ⊢
  unfold docData
  rw [← he]
  split
  · exact dataWins_res o ft htf st d .las3data (Or.inr rfl) hrel hw _ _ A A' rfl rfl
  · exact dataWins_res o ft htf st d .data (Or.inl rfl) hrel hw _ _ A A' rfl rfl

/-- the document with the line `j` inside a header-items section has the same data sections -/
theorem dRel_insert (A B : List (Str × List Str)) (t : Str) (b b' : List Str) (hk : kindOf t = .items) :
    Forall2 DRel (A ++ (t, b) :: B) (A ++ (t, b') :: B) := by
  induction A with
  | nil =>
    refine .cons ⟨rfl, ?_⟩ (forall2_refl _ dRel_refl B)
    intro h
    rcases h with h | h <;> simp only [hk] at h <;> cases h
  | cons x rest ih => exact .cons (dRel_refl x) ih

end Lasio.Tf

/-! ## §5b the windows: those behind the extra line move down by one -/
namespace Lasio.Tf
open Lasio Lasio.Dt

/-- a window of the file with one more line before line `pos` -/
def shiftWin (pos : Nat) (w : Nat × Nat × Str) : Nat × Nat × Str :=
  if w.1 < pos then w else (w.1 + 1, w.2.1 + 1, w.2.2)

/-- … and the record of a data section -/
def shiftData (pos : Nat) (x : DataRead) : DataRead :=
  if x.first < pos then x else { x with first := x.first + 1, last := x.last + 1 }

theorem dataWins_lower (k : Rd.SecKind) (secs : List (Str × List Str)) (n : Nat) :
    ∀ w ∈ dataWins k secs n, n ≤ w.1 := by
  induction secs generalizing n with
  | nil => intro w hw; cases hw
  | cons tb rest ih =>
    intro w hw
    simp only [dataWins, List.mem_append] at hw
    rcases hw with hw | hw
    · unfold secWin at hw
      split at hw
      · simp only [List.mem_singleton] at hw; subst hw; exact Nat.le_refl _
      · cases hw
    · have := ih _ w hw
      omega

theorem dataWins_upper (k : Rd.SecKind) (secs : List (Str × List Str)) (n : Nat) :
    ∀ w ∈ dataWins k secs n, w.1 < n + Rd.size secs := by
  induction secs generalizing n with
  | nil => intro w hw; cases hw
  | cons tb rest ih =>
    obtain ⟨t, b⟩ := tb
    intro w hw
    simp only [dataWins, List.mem_append] at hw
    rcases hw with hw | hw
    · unfold secWin at hw
      split at hw
      · simp only [List.mem_singleton] at hw; subst hw; simp [Rd.size]; omega
      · cases hw
    · have := ih _ w hw
      simp only [Rd.size]
      omega

theorem dataWins_append (k : Rd.SecKind) (A C : List (Str × List Str)) (n : Nat) :
    dataWins k (A ++ C) n = dataWins k A n ++ dataWins k C (n + Rd.size A) := by
  induction A generalizing n with
  | nil => simp [dataWins, Rd.size]
  | cons tb rest ih =>
    obtain ⟨t, b⟩ := tb
    simp only [List.cons_append, dataWins, ih, List.append_assoc]
    have : n + 1 + b.length + Rd.size rest = n + Rd.size ((t, b) :: rest) := by simp [Rd.size]; omega
    rw [this]

theorem dataWins_succ (k : Rd.SecKind) (B : List (Str × List Str)) (m : Nat) :
    dataWins k B (m + 1) = (dataWins k B m).map (fun w => (w.1 + 1, w.2.1 + 1, w.2.2)) := by
  induction B generalizing m with
  | nil => rfl
  | cons tb rest ih =>
    have hsec : secWin k (m + 1) tb = (secWin k m tb).map (fun w => (w.1 + 1, w.2.1 + 1, w.2.2)) := by
      unfold secWin
      split
      · simp only [List.map_cons, List.map_nil, List.cons.injEq, Prod.mk.injEq, and_true, true_and]
        omega
      · rfl
    simp only [dataWins, List.map_append]
    have e : m + 1 + 1 + tb.2.length = (m + 1 + tb.2.length) + 1 := by omega
    rw [e, ih, hsec]

/-- the windows of kind `k` (a data kind) of the document with the extra line -/
theorem dataWins_insert (k : Rd.SecKind) (hdk : isDataKind k) (A B : List (Str × List Str)) (t : Str) (b₁ b₂ : List Str) (j : Str)
    (hk : kindOf t = .items) (n : Nat) :
    dataWins k (A ++ (t, b₁ ++ j :: b₂) :: B) n =
      (dataWins k (A ++ (t, b₁ ++ b₂) :: B) n).map (shiftWin (n + Rd.size A + 1 + b₁.length)) := by
  have hne : ¬ kindOf t = k := by
    intro e
    rcases hdk with h | h <;> rw [← e, hk] at h <;> cases h
  have hA : (dataWins k A n).map (shiftWin (n + Rd.size A + 1 + b₁.length)) = dataWins k A n := by
    have : (dataWins k A n).map (shiftWin (n + Rd.size A + 1 + b₁.length)) = (dataWins k A n).map id := by
      apply List.map_congr_left
      intro w hw
      have := dataWins_upper k A n w hw
      unfold shiftWin
      rw [if_pos (by omega)]
      rfl
    rw [this, List.map_id]
  have hB : dataWins k B (n + Rd.size A + 1 + (b₁ ++ j :: b₂).length) =
      (dataWins k B (n + Rd.size A + 1 + (b₁ ++ b₂).length)).map (shiftWin (n + Rd.size A + 1 + b₁.length)) := by
    have e : n + Rd.size A + 1 + (b₁ ++ j :: b₂).length = (n + Rd.size A + 1 + (b₁ ++ b₂).length) + 1 := by
      simp only [List.length_append, List.length_cons]; omega
    rw [e, dataWins_succ]
    apply List.map_congr_left
    intro w hw
    have := dataWins_lower k B _ w hw
    have hlen : (b₁ ++ b₂).length = b₁.length + b₂.length := List.length_append
    unfold shiftWin
    rw [if_neg (by omega)]
  rw [dataWins_append, dataWins_append, List.map_append, hA]
  simp only [dataWins, secWin, hne, if_false, List.nil_append]
  rw [hB]

theorem docData_insert (A B : List (Str × List Str)) (t : Str) (b₁ b₂ : List Str) (j : Str) (hk : kindOf t = .items) (n : Nat) :
    docData (A ++ (t, b₁ ++ j :: b₂) :: B) n =
      (docData (A ++ (t, b₁ ++ b₂) :: B) n).map (shiftWin (n + Rd.size A + 1 + b₁.length)) := by
  unfold docData
  rw [dataWins_insert .data (Or.inl rfl) A B t b₁ b₂ j hk n, dataWins_insert .las3data (Or.inr rfl) A B t b₁ b₂ j hk n]
  cases h : dataWins .data (A ++ (t, b₁ ++ b₂) :: B) n with
  | nil => simp
  | cons w ws => simp

/-- the records of the data sections: the same results on windows moved down -/
theorem dataReads_shift (o : DataOpts) (st : Steer) (d : Nat) (ft : FloatTable) (lines lines' : List Str) (pos : Nat)
    (W W' : List (Nat × Nat × Str)) (hwin : W' = W.map (shiftWin pos))
    (hres : W'.map (resOf o st d ft lines') = W.map (resOf o st d ft lines)) :
    (W'.map fun w => (⟨w.1, w.2.1, readData o lines' w.1 w.2.1 st d ft⟩ : DataRead)) =
      (W.map fun w => (⟨w.1, w.2.1, readData o lines w.1 w.2.1 st d ft⟩ : DataRead)).map (shiftData pos) := by
  subst hwin
  rw [List.map_map] at hres
  rw [List.map_map, List.map_map]
  apply List.map_congr_left
  intro w hw
  have hpt : resOf o st d ft lines' (shiftWin pos w) = resOf o st d ft lines w := List.map_inj_left.mp hres w hw
  simp only [Function.comp, resOf] at hpt ⊢
  rw [hpt]
  unfold shiftWin shiftData
  by_cases hlt : w.1 < pos
  · simp only [hlt, if_true]
  · simp only [hlt, if_false]

end Lasio.Tf

/-! ## §6 the whole file, on the document structure -/
namespace Lasio.Tf
open Lasio Lasio.Dt

/-- moving the windows does not touch the results -/
theorem shiftData_res {β} (f : Except DErr (Engine × List (Slot × Column)) → β) (pos : Nat) (l : List DataRead) :
    (l.map (shiftData pos)).map (fun x => f x.res) = l.map (fun x => f x.res) := by
  rw [List.map_map]
  apply List.map_congr_left
  intro x _
  simp only [Function.comp, shiftData]
  split <;> rfl

/-- WHOLE FILE on the document structure: lines `pre` before the first title, sections `A`, the header-items section
`(t, b₁ ++ b₂)`, sections `B`; the second document has the extra line `j` between `b₁` and `b₂`. -/
theorem readFull_junk (o : Opts) (nullOf : Option Str → Option Str) (ft : FloatTable) (htf : TildeNotFloat ft)
    (pre : List Str) (A B : List (Str × List Str)) (t : Str) (b₁ b₂ : List Str) (j : Str)
    (hpre : ∀ x ∈ pre, Rd.isTitle x = false) (hw : Rd.WellFormed (A ++ (t, b₁ ++ b₂) :: B)) (hj : Rd.isTitle j = false)
    (hi : o.hdr.ignoreHeaderErrors = true) (hk : kindOf t = .items)
    (hcur : Rd.curvesTitle t = false ∨ ∀ ver p, Rd.mkParser (Rd.lineStrip t) ver = .ok p → Rd.lineItem o.hdr p j = none)
    (hst : ∀ ver p x, Rd.mkParser (Rd.lineStrip t) ver = .ok p → Rd.lineItem o.hdr p j = some x → upper x.orig ∉ Rd.steerKeys)
    (r : FullRead) (hr : readFull o nullOf ft (pre ++ Rd.flat (A ++ (t, b₁ ++ b₂) :: B)) = .ok r) :
    ∃ r' ver p k, readFull o nullOf ft (pre ++ Rd.flat (A ++ (t, b₁ ++ j :: b₂) :: B)) = .ok r' ∧
      r'.steer = r.steer ∧
      r'.data = r.data.map (shiftData (pre.length + Rd.size A + 1 + b₁.length)) ∧
      Rd.mkParser (Rd.lineStrip t) ver = .ok p ∧
      JRel k (.items (Rd.bodyItems o.hdr p b₁ ++ Rd.bodyItems o.hdr p b₂))
             (.items (Rd.bodyItems o.hdr p b₁ ++ (Rd.lineItem o.hdr p j).toList ++ Rd.bodyItems o.hdr p b₂))
             r.sections r'.sections ∧
      ((∀ tb ∈ B, ∀ ver ver' k', Rd.secKey ver (t, ([] : List Str)) = some k' → Rd.secKey ver' tb ≠ some k') →
        r.sections.lookup k = some (.items (Rd.bodyItems o.hdr p b₁ ++ Rd.bodyItems o.hdr p b₂)) ∧
        r'.sections.lookup k =
          some (.items (Rd.bodyItems o.hdr p b₁ ++ (Rd.lineItem o.hdr p j).toList ++ Rd.bodyItems o.hdr p b₂))) := by
  unfold readFull at hr ⊢
  cases hh : Rd.readLines o.hdr (pre ++ Rd.flat (A ++ (t, b₁ ++ b₂) :: B)) with
  | error e => rw [hh] at hr; cases hr
  | ok h =>
    rw [hh] at hr
    obtain ⟨ver, p, k, secs', hp, hkey, hrel, hlast, hdata, hr'⟩ :=
      readLines_junk o.hdr pre A B t b₁ b₂ j hpre hw hj hi hk hcur hst h hh
    rw [hr']
    simp only [Except.ok.injEq] at hr
    subst hr
    refine ⟨_, ver, p, k, rfl, rfl, ?_, hp, hrel, hlast⟩
    simp only
    have hdc : declaredCount secs' = declaredCount h.sections := by
      apply jrel_declaredCount k _ _ _ _ hrel
      rcases hkey with hkey | hkey
      · left; exact hkey
      · right; simp [hkey]
    rw [hdc, hdata]
    exact dataReads_shift o.dat _ _ ft _ _ _ _ _ (docData_insert A B t b₁ b₂ j hk pre.length)
      (docData_res o.dat ft htf _ _ (dRel_insert A B t _ _ hk) hw pre pre).symm

end Lasio.Tf

/-! ## §7 from a split list of lines to the document structure -/
namespace Lasio.Tf
open Lasio Lasio.Dt

/-- the lines after the last title line -/
def tailBody (l : List Str) : List Str := (l.reverse.takeWhile (fun x => !Rd.isTitle x)).reverse

/-- the lines before the first title line -/
def headBody (l : List Str) : List Str := l.takeWhile (fun x => !Rd.isTitle x)

theorem parse_fst (l : List Str) : (parse l).1 = headBody l := by
  induction l with
  | nil => rfl
  | cons a l ih =>
    simp only [parse, headBody, List.takeWhile_cons]
    cases h : Rd.isTitle a with
    | true => simp
    | false => simp only [Bool.false_eq_true, if_false, Bool.not_false, if_true]; rw [ih]; rfl

/-- a list of lines that ends inside the section opened by the title line `t` -/
theorem ctxEnd_decomp (c : Ctx) (l₁ : List Str) (t : Str) (h : ctxEnd c l₁ = .sec t) :
    (c = .sec t ∧ ∀ x ∈ l₁, Rd.isTitle x = false) ∨
    ∃ l₀ b₁, l₁ = l₀ ++ t :: b₁ ∧ Rd.isTitle t = true ∧ ∀ x ∈ b₁, Rd.isTitle x = false := by
  induction l₁ generalizing c with
  | nil => left; exact ⟨h, fun x hx => by cases hx⟩
  | cons a l ih =>
    simp only [ctxEnd] at h
    rcases ih _ h with ⟨hc, hl⟩ | ⟨l₀, b₁, hl, ht, hb⟩
    · unfold nextCtx at hc
      cases ha : Rd.isTitle a with
      | true =>
        rw [ha] at hc
        simp only [if_true, Ctx.sec.injEq] at hc
        subst hc
        right
        exact ⟨[], l, rfl, ha, hl⟩
      | false =>
        rw [ha] at hc
        simp only [Bool.false_eq_true, if_false] at hc
        left
        refine ⟨hc, ?_⟩
        intro x hx
        rcases List.mem_cons.mp hx with rfl | hx
        · exact ha
        · exact hl x hx
    · right
      exact ⟨a :: l₀, b₁, by rw [hl]; rfl, ht, hb⟩

theorem tailBody_eq (l₀ b₁ : List Str) (t : Str) (ht : Rd.isTitle t = true) (hb : ∀ x ∈ b₁, Rd.isTitle x = false) :
    tailBody (l₀ ++ t :: b₁) = b₁ := by
  unfold tailBody
  have : (l₀ ++ t :: b₁).reverse = b₁.reverse ++ t :: l₀.reverse := by simp
  rw [this, List.takeWhile_append_of_pos (by
    intro x hx
    simp [hb x (List.mem_reverse.mp hx)])]
  simp [ht]

/-- THE DOCUMENT STRUCTURE AT A SPLIT POINT. When `l₁` ends inside the section opened by the title line `t`, the documents
`l₁ ++ l₂` and `l₁ ++ j :: l₂` (`j` not a title line) have the same lines before the first title, the same sections before
and after, and the section `t` with the body `tailBody l₁ ++ headBody l₂`, resp. with `j` in between; the sections after are those of
`l₂` (`(parse l₂).2`). -/
theorem split_doc (l₁ l₂ : List Str) (t j : Str) (h : ctxEnd .pre l₁ = .sec t) :
    ∃ (pre : List Str) (A : List (Str × List Str)),
      (∀ x ∈ pre, Rd.isTitle x = false) ∧ Rd.WellFormed (A ++ (t, tailBody l₁ ++ headBody l₂) :: (parse l₂).2) ∧
      l₁.length = pre.length + Rd.size A + 1 + (tailBody l₁).length ∧
      l₁ ++ l₂ = pre ++ Rd.flat (A ++ (t, tailBody l₁ ++ headBody l₂) :: (parse l₂).2) ∧
      l₁ ++ j :: l₂ = pre ++ Rd.flat (A ++ (t, tailBody l₁ ++ j :: headBody l₂) :: (parse l₂).2) := by
  rcases ctxEnd_decomp .pre l₁ t h with ⟨hc, _⟩ | ⟨l₀, b₁, hl, ht, hb⟩
  · cases hc
  · have hb₁ : tailBody l₁ = b₁ := by rw [hl]; exact tailBody_eq l₀ b₁ t ht hb
    have e0 := parse_flat l₀
    have e2 := parse_flat l₂
    rw [hb₁, ← parse_fst]
    refine ⟨(parse l₀).1, (parse l₀).2, parse_pre l₀, ?_, ?_, ?_, ?_⟩
    · intro tb htb
      rcases List.mem_append.mp htb with hm | hm
      · exact parse_wf l₀ tb hm
      · rcases List.mem_cons.mp hm with rfl | hm
        · refine ⟨ht, ?_⟩
          intro x hx
          rcases List.mem_append.mp hx with hx | hx
          · exact hb x hx
          · exact parse_pre l₂ x hx
        · exact parse_wf l₂ tb hm
    · have : l₀.length = (parse l₀).1.length + Rd.size (parse l₀).2 := by
        rw [size_eq_flat_length, ← List.length_append, ← e0]
      rw [hl, List.length_append, List.length_cons, this]
      omega
    · calc l₁ ++ l₂ = (l₀ ++ t :: b₁) ++ l₂ := by rw [hl]
        _ = (((parse l₀).1 ++ Rd.flat (parse l₀).2) ++ t :: b₁) ++ ((parse l₂).1 ++ Rd.flat (parse l₂).2) := by
            rw [← e0, ← e2]
        _ = _ := by simp [flat_append, Rd.flat]
    · calc l₁ ++ j :: l₂ = (l₀ ++ t :: b₁) ++ j :: l₂ := by rw [hl]
        _ = (((parse l₀).1 ++ Rd.flat (parse l₀).2) ++ t :: b₁) ++ j :: ((parse l₂).1 ++ Rd.flat (parse l₂).2) := by
            rw [← e0, ← e2]
        _ = _ := by simp [flat_append, Rd.flat]

end Lasio.Tf

/-! ## §8 no header error at file level; what a line parses to -/
namespace Lasio.Rd

theorem routeKey_error (title : Str) (ver : VerVal) (e : RErr) (h : routeKey title ver = .error e) : e = .unmodelled := by
  unfold routeKey at h
  simp only at h
  repeat' split at h
  all_goals first | cases h | skip
  all_goals rfl

theorem finishItems_error (o : ReadOpts) (title : Str) (items : List RItem) (st : RState) (e : RErr)
    (h : finishItems o title items st = .error e) : e = .indexError ∨ e = .unmodelled := by
  unfold finishItems at h
  split at h
  · cases h; left; rfl
  · cases hr : routeKey title (classifyVer (steer o title items st.steer).vers) with
    | error e' =>
      simp only [hr] at h
      cases h
      right; exact routeKey_error _ _ _ hr
    | ok k => simp [hr] at h

/-- with `ignore_header_errors` one iteration of the section loop cannot raise `LASHeaderError` -/
theorem processSection_error (o : ReadOpts) (lines : List Str) (w : Nat × Nat × Str) (st : RState) (e : RErr)
    (hi : o.ignoreHeaderErrors = true) (h : processSection o lines w st = .error e) :
    e = .keyError ∨ e = .unmodelled ∨ e = .indexError := by
  unfold processSection at h
  split at h
  · cases hp : parseItemsSection o (classifyVer st.steer.vers) (lines.drop w.1) w.1 w.2.1 with
    | error e' =>
      simp only [hp] at h
      cases h
      rcases C19_total_section o _ _ _ _ e hi hp with h | h
      · left; exact h
      · right; left; exact h
    | ok items =>
      simp only [hp] at h
      rcases finishItems_error o _ _ _ e h with h | h
      · right; right; exact h
      · right; left; exact h
  · cases h
  · cases h
  · cases h

theorem processSections_error (o : ReadOpts) (lines : List Str) (ws : List (Nat × Nat × Str)) (st : RState) (e : RErr)
    (hi : o.ignoreHeaderErrors = true) (h : processSections o lines ws st = .error e) :
    e = .keyError ∨ e = .unmodelled ∨ e = .indexError := by
  induction ws generalizing st with
  | nil => cases h
  | cons w ws ih =>
    simp only [processSections] at h
    cases hp : processSection o lines w st with
    | error e' =>
      simp only [hp] at h
      cases h
      exact processSection_error o lines w st e hi hp
    | ok st' =>
      simp only [hp] at h
      exact ih st' h

theorem finishRead_error (st : RState) (e : RErr) (h : finishRead st = .error e) : e = .keyError ∨ e = .attributeError := by
  unfold finishRead at h
  generalize (!_ : Bool) = A at h
  cases A with
  | true => simp at h; left; exact h.symm
  | false =>
    by_cases h2 : st.curvesPlain = true
    · simp [h2] at h; right; exact h.symm
    · simp [h2] at h

/-- with `ignore_header_errors` the header-level reader fails, if at all, with another error than `LASHeaderError`:
no sections, `KeyError` (version / delimiter), `IndexError` (the title "~"), `AttributeError`, or an unmodelled version -/
theorem readLines_error (o : ReadOpts) (lines : List Str) (e : RErr) (hi : o.ignoreHeaderErrors = true)
    (h : readLines o lines = .error e) :
    e = .noSections ∨ e = .keyError ∨ e = .unmodelled ∨ e = .indexError ∨ e = .attributeError := by
  unfold readLines at h
  split at h
  · cases h; left; rfl
  · cases hp : processSections o lines (findSections lines) RState.init with
    | error e' =>
      simp only [hp] at h
      cases h
      rcases processSections_error o lines _ _ e hi hp with h | h | h
      · right; left; exact h
      · right; right; left; exact h
      · right; right; right; left; exact h
    | ok st =>
      simp only [hp] at h
      rcases finishRead_error st e h with h | h
      · right; left; exact h
      · right; right; right; right; exact h

/-! ### what a line parses to -/

theorem mkItem'_orig (p : Parser) (f : Fields) : (mkItem' p f).orig = f.name := by
  unfold mkItem'
  split
  · rfl
  · rfl
  · simp only
    split
    · rfl
    · split <;> rfl

/-- the mnemonic of the item a line parses to: the name field of `read_header_line`, in the requested case -/
theorem lineItem_orig (o : ReadOpts) (p : Parser) (j : Str) (x : RItem) (h : lineItem o p j = some x) :
    ∃ f, parseHeaderLine p.sec (lineStrip j) = some f ∧ x.orig = applyCase o.mnemonicCase f.name := by
  unfold lineItem at h
  split at h
  · rename_i it hr
    cases h
    unfold lineRes at hr
    simp only at hr
    split at hr
    · cases hr
    · split at hr
      · cases hr
      · split at hr
        · cases hr
        · split at hr
          · cases hr
          · rename_i f hf
            cases hr
            exact ⟨f, hf, by rw [mkItem'_orig]⟩
  · cases h

/-- a line `read_header_line` cannot parse, whatever the section, parses to nothing -/
theorem lineItem_none_of_unparsable (o : ReadOpts) (p : Parser) (j : Str)
    (h : ∀ sec : SecName, parseHeaderLine sec (lineStrip j) = none) : lineItem o p j = none := by
  cases hl : lineItem o p j with
  | none => rfl
  | some x =>
    obtain ⟨f, hf, _⟩ := lineItem_orig o p j x hl
    rw [h p.sec] at hf
    cases hf

/-! ### executable side conditions for a concrete line -/

def allSecNames : List SecName := [.version, .well, .curves, .parameter, .other]

theorem mem_allSecNames (sec : SecName) : sec ∈ allSecNames := by cases sec <;> simp [allSecNames]

/-- no section's `read_header_line` can parse the line -/
def unparsableLine (j : Str) : Bool := allSecNames.all fun sec => (parseHeaderLine sec (lineStrip j)).isNone

/-- whatever section parses the line, the mnemonic is none of VERS, WRAP, DLM, NULL (after `mnemonic_case`, upper-cased) -/
def harmlessLine (mc : MCase) (j : Str) : Bool :=
  allSecNames.all fun sec =>
    match parseHeaderLine sec (lineStrip j) with
    | none => true
    | some f => !steerKeys.contains (upper (applyCase mc f.name))

theorem unparsableLine_spec (o : ReadOpts) (p : Parser) (j : Str) (h : unparsableLine j = true) : lineItem o p j = none := by
  apply lineItem_none_of_unparsable
  intro sec
  have := List.all_eq_true.mp h sec (mem_allSecNames sec)
  simpa using this

theorem harmlessLine_spec (o : ReadOpts) (p : Parser) (j : Str) (x : RItem) (h : harmlessLine o.mnemonicCase j = true)
    (hx : lineItem o p j = some x) : upper x.orig ∉ steerKeys := by
  obtain ⟨f, hf, hn⟩ := lineItem_orig o p j x hx
  have := List.all_eq_true.mp h p.sec (mem_allSecNames p.sec)
  simp only [hf] at this
  rw [hn]
  intro hm
  have hc : steerKeys.contains (upper (applyCase o.mnemonicCase f.name)) = true := List.contains_iff_mem.mpr hm
  rw [hc] at this
  cases this

end Lasio.Rd
