import LasioModel.Transform
import LasioProofs.Lemmas.CycleLemmas
import LasioProofs.Lemmas.WriteObjLemmas
import LasioProofs.Props.C01
import LasioProofs.Props.C06
/-
Helper lemmas for C01File: the whole-file reader `Tf.readFull` on the text of one `write` call =
header lines (`Wr.headerLines`) ++ data-section lines (`Dw.dataLines`: the `~A` line and the body), each followed by "\n".
-/
namespace Lasio.Fr
open Lasio

/-! ## a whitespace line end changes nothing for the header-level reader -/

theorem strip_append_ws (l eol : Str) (h : ∀ c ∈ eol, isPySpace c = true) : strip (l ++ eol) = strip l := by
  have := strip_pad [] l eol (by simp) h
  simpa using this

theorem isTitle_eol (l eol : Str) (h : ∀ c ∈ eol, isPySpace c = true) : Rd.isTitle (l ++ eol) = Rd.isTitle l := by
  rw [Rd.isTitle_eq, Rd.isTitle_eq, strip_append_ws l eol h]

theorem lineRes_eol (o : Rd.ReadOpts) (p : Rd.Parser) (l eol : Str) (h : ∀ c ∈ eol, isPySpace c = true) :
    Rd.lineRes o p (l ++ eol) = Rd.lineRes o p l := by
  simp only [Rd.lineRes, Rd.lineStrip_eq_strip, strip_append_ws l eol h]

theorem bodyRun_eol (o : Rd.ReadOpts) (p : Rd.Parser) (body : List Str) (eol : Str) (h : ∀ c ∈ eol, isPySpace c = true)
    (n : Nat) : Rd.bodyRun o p (body.map (· ++ eol)) n = Rd.bodyRun o p body n := by
  induction body generalizing n with
  | nil => rfl
  | cons b bs ih => simp only [List.map_cons, Rd.bodyRun, lineRes_eol o p b eol h, ih]

/-- every line of every section followed by `eol` -/
def eolSecs (eol : Str) (secs : List (Str × List Str)) : List (Str × List Str) :=
  secs.map fun tb => (tb.1 ++ eol, tb.2.map (· ++ eol))

theorem docSection_eol (o : Rd.ReadOpts) (n : Nat) (t : Str) (body : List Str) (eol : Str)
    (h : ∀ c ∈ eol, isPySpace c = true) (st : Rd.RState) :
    Rd.docSection o n (t ++ eol, body.map (· ++ eol)) st = Rd.docSection o n (t, body) st := by
  have hm : (body.map (· ++ eol)).map Rd.lineStrip = body.map Rd.lineStrip := by
    rw [List.map_map]
    apply List.map_congr_left
    intro b _
    simp only [Function.comp, Rd.lineStrip_eq_strip, strip_append_ws b eol h]
  simp only [Rd.docSection, Rd.sline_eq_strip, Rd.lineStrip_eq_strip, strip_append_ws t eol h, bodyRun_eol o _ body eol h,
    List.length_map]
  rw [hm]

theorem docSections_eol (o : Rd.ReadOpts) (secs : List (Str × List Str)) (eol : Str) (h : ∀ c ∈ eol, isPySpace c = true)
    (n : Nat) (st : Rd.RState) : Rd.docSections o (eolSecs eol secs) n st = Rd.docSections o secs n st := by
  induction secs generalizing n st with
  | nil => rfl
  | cons tb rest ih =>
    obtain ⟨t, b⟩ := tb
    simp only [eolSecs, List.map_cons, Rd.docSections, docSection_eol o n t b eol h, List.length_map]
    cases Rd.docSection o n (t, b) st with
    | error e => rfl
    | ok st' => exact ih _ _

theorem flat_eol (eol : Str) (secs : List (Str × List Str)) : Rd.flat (eolSecs eol secs) = (Rd.flat secs).map (· ++ eol) := by
  induction secs with
  | nil => rfl
  | cons tb rest ih =>
    obtain ⟨t, b⟩ := tb
    simp only [eolSecs, List.map_cons, Rd.flat] at ih ⊢
    rw [ih]; simp

theorem wellFormed_eol (eol : Str) (h : ∀ c ∈ eol, isPySpace c = true) (secs : List (Str × List Str))
    (hw : Rd.WellFormed secs) : Rd.WellFormed (eolSecs eol secs) := by
  intro tb htb
  obtain ⟨tb0, h0, rfl⟩ := List.mem_map.mp htb
  obtain ⟨h1, h2⟩ := hw tb0 h0
  refine ⟨by rw [isTitle_eol _ _ h]; exact h1, ?_⟩
  intro b hb
  obtain ⟨b0, hb0, rfl⟩ := List.mem_map.mp hb
  rw [isTitle_eol _ _ h]; exact h2 b0 hb0

/-! ## sections one after the other -/

theorem flat_append (a b : List (Str × List Str)) : Rd.flat (a ++ b) = Rd.flat a ++ Rd.flat b := by
  induction a with
  | nil => rfl
  | cons tb rest ih => obtain ⟨t, x⟩ := tb; simp [Rd.flat, ih]

theorem docSections_append (o : Rd.ReadOpts) (a b : List (Str × List Str)) (n : Nat) (st : Rd.RState) :
    Rd.docSections o (a ++ b) n st =
      match Rd.docSections o a n st with
      | .error e => .error e
      | .ok st' => Rd.docSections o b (n + Rd.size a) st' := by
  induction a generalizing n st with
  | nil => rfl
  | cons tb rest ih =>
    obtain ⟨t, x⟩ := tb
    simp only [List.cons_append, Rd.docSections]
    cases Rd.docSection o n (t, x) st with
    | error e => rfl
    | ok st' =>
      simp only [ih, Rd.size]
      rw [show n + 1 + x.length + Rd.size rest = n + (1 + x.length + Rd.size rest) by omega]

/-! ## the steering values in full -/

theorem orKeep_none (a : Option Str) : Rd.orKeep a none = a := by cases a <;> rfl

/-- what the steering lookup returns for `key` -/
def lk (o : Rd.ReadOpts) (items : List Rd.RItem) (key : String) : Option Str :=
  (Rd.lookupItem (o.mnemonicCase != .preserve) items key.toList).map (·.value)

theorem steer_V_full (o : Rd.ReadOpts) (c : Char) (r : Str) (items : List Rd.RItem) (s : Rd.Steer) (hc : upperC c = 'V') :
    Rd.steer o ('~' :: c :: r) items s =
      { s with vers := Rd.orKeep (lk o items "VERS") s.vers, wrap := Rd.orKeep (lk o items "WRAP") s.wrap,
               dlm := Rd.orKeep (lk o items "DLM") s.dlm } := by
  unfold Rd.steer lk
  simp [RH.titleLetter_cons, hc]

theorem steer_W_full (o : Rd.ReadOpts) (c : Char) (r : Str) (items : List Rd.RItem) (s : Rd.Steer) (hc : upperC c = 'W') :
    Rd.steer o ('~' :: c :: r) items s = { s with null := Rd.orKeep (lk o items "NULL") s.null } := by
  unfold Rd.steer lk
  simp [RH.titleLetter_cons, hc]

theorem steer_other (o : Rd.ReadOpts) (c : Char) (r : Str) (items : List Rd.RItem) (s : Rd.Steer)
    (hV : upperC c ≠ 'V') (hW : upperC c ≠ 'W') : Rd.steer o ('~' :: c :: r) items s = s := by
  unfold Rd.steer
  simp [RH.titleLetter_cons, hV, hW]

/-- READING THE FIVE WRITTEN SECTIONS, with every steering value (`RH.docSections_written` exposes `vers` and `dlm` only) -/
theorem docSections_written_full (o : Rd.ReadOpts) (v : String) (w : Nat) (lv lw lc lp lo : List Str)
    (iv iw ic ip : List Wr.RItem) (vtext : Str)
    (hso : ∀ kind, kind ≠ .other → (Wr.sectionOrders v (Wr.secKey kind)).isSome = true)
    (hnv : ∀ b ∈ lv, Rd.isTitle b = false) (hnw : ∀ b ∈ lw, Rd.isTitle b = false)
    (hnc : ∀ b ∈ lc, Rd.isTitle b = false) (hnp : ∀ b ∈ lp, Rd.isTitle b = false)
    (hrv : Wr.readSection "2.0" .version (RH.cvtCase o.mnemonicCase) lv = some iv)
    (hrw : Wr.readSection v .well (RH.cvtCase o.mnemonicCase) lw = some iw)
    (hrc : Wr.readSection v .curves (RH.cvtCase o.mnemonicCase) lc = some ic)
    (hrp : Wr.readSection v .parameter (RH.cvtCase o.mnemonicCase) lp = some ip)
    (hvers : lk o (iv.map RH.toRd) "VERS" = some vtext)
    (hcls : Rd.classifyVer (some vtext) = .known v.toList) :
    ∃ st, Rd.docSections o (RH.written w [("~Version ", lv), ("~Well ", lw), ("~Curve Information ", lc),
        ("~Params ", lp), ("~Other ", lo)]) 0 Rd.RState.init = .ok st ∧
      st.sections = [(Rd.kVersion, some (.items (iv.map RH.toRd))), (Rd.kWell, some (.items (iw.map RH.toRd))),
        (Rd.kCurves, some (.items (ic.map RH.toRd))), (Rd.kParameter, some (.items (ip.map RH.toRd))),
        (Rd.kOther, some (.text (joinWith ['\n'] (lo.map strip))))] ∧
      st.curvesPlain = false ∧ st.data = [] ∧ st.las3 = [] ∧
      st.steer = ⟨some vtext, lk o (iv.map RH.toRd) "WRAP", lk o (iw.map RH.toRd) "NULL", lk o (iv.map RH.toRd) "DLM"⟩ := by
  obtain ⟨r1, ht1, hu1⟩ := RH.title_facts "~Version " 'V' "ersion".toList w rfl (by decide) (by decide)
  obtain ⟨r2, ht2, hu2⟩ := RH.title_facts "~Well " 'W' "ell".toList w rfl (by decide) (by decide)
  obtain ⟨r3, ht3, hu3⟩ := RH.title_facts "~Curve Information " 'C' "urve Information".toList w rfl (by decide) (by decide)
  obtain ⟨r4, ht4, hu4⟩ := RH.title_facts "~Params " 'P' "arams".toList w rfl (by decide) (by decide)
  obtain ⟨r5, ht5, hu5⟩ := RH.title_facts "~Other " 'O' "ther".toList w rfl (by decide) (by decide)
  have hV : upperC 'V' = 'V' := by decide
  have hW : upperC 'W' = 'W' := by decide
  have hC : upperC 'C' = 'C' := by decide
  have hP : upperC 'P' = 'P' := by decide
  have hO : upperC 'O' = 'O' := by decide
  -- ~Version
  have d1 := RH.docSection_written o 0 (Wr.titleLine "~Version " w) lv Rd.RState.init .version (by decide) 'V' r1 "2.0"
    ht1 hu1 hV rfl RH.v20_version hnv iv hrv
  generalize hst1 : ({ Rd.RState.init with
      steer := Rd.steer o ('~' :: 'V' :: r1) (iv.map RH.toRd) Rd.RState.init.steer,
      sections := Rd.assign (RH.keyOf .version) (.items (iv.map RH.toRd)) Rd.RState.init.sections,
      curvesPlain := if SecName.version = .curves then false else Rd.RState.init.curvesPlain } : Rd.RState) = st1 at d1
  have hS1 : st1.steer = ⟨some vtext, lk o (iv.map RH.toRd) "WRAP", none, lk o (iv.map RH.toRd) "DLM"⟩ := by
    rw [← hst1]
    simp only []
    rw [steer_V_full o 'V' r1 _ _ hV, hvers]
    simp only [Rd.RState.init, Rd.Steer.init, orKeep_none]
  -- ~Well
  have d2 := RH.docSection_written o (0 + 1 + lv.length) (Wr.titleLine "~Well " w) lw st1 .well (by decide) 'W' r2 v
    ht2 hu2 hW (by rw [hS1]; exact hcls) (hso .well (by decide)) hnw iw hrw
  generalize hst2 : ({ st1 with
      steer := Rd.steer o ('~' :: 'W' :: r2) (iw.map RH.toRd) st1.steer,
      sections := Rd.assign (RH.keyOf .well) (.items (iw.map RH.toRd)) st1.sections,
      curvesPlain := if SecName.well = .curves then false else st1.curvesPlain } : Rd.RState) = st2 at d2
  have hS2 : st2.steer = ⟨some vtext, lk o (iv.map RH.toRd) "WRAP", lk o (iw.map RH.toRd) "NULL",
      lk o (iv.map RH.toRd) "DLM"⟩ := by
    rw [← hst2]
    simp only []
    rw [steer_W_full o 'W' r2 _ _ hW, hS1]
    simp only [orKeep_none]
  -- ~Curve Information
  have d3 := RH.docSection_written o (0 + 1 + lv.length + 1 + lw.length) (Wr.titleLine "~Curve Information " w) lc st2
    .curves (by decide) 'C' r3 v ht3 hu3 hC (by rw [hS2]; exact hcls) (hso .curves (by decide)) hnc ic hrc
  generalize hst3 : ({ st2 with
      steer := Rd.steer o ('~' :: 'C' :: r3) (ic.map RH.toRd) st2.steer,
      sections := Rd.assign (RH.keyOf .curves) (.items (ic.map RH.toRd)) st2.sections,
      curvesPlain := if SecName.curves = .curves then false else st2.curvesPlain } : Rd.RState) = st3 at d3
  have hS3 : st3.steer = st2.steer := by
    rw [← hst3]; simp only []
    exact steer_other o 'C' r3 _ _ (by decide) (by decide)
  -- ~Params
  have d4 := RH.docSection_written o (0 + 1 + lv.length + 1 + lw.length + 1 + lc.length) (Wr.titleLine "~Params " w) lp st3
    .parameter (by decide) 'P' r4 v ht4 hu4 hP (by rw [hS3, hS2]; exact hcls) (hso .parameter (by decide)) hnp ip hrp
  generalize hst4 : ({ st3 with
      steer := Rd.steer o ('~' :: 'P' :: r4) (ip.map RH.toRd) st3.steer,
      sections := Rd.assign (RH.keyOf .parameter) (.items (ip.map RH.toRd)) st3.sections,
      curvesPlain := if SecName.parameter = .curves then false else st3.curvesPlain } : Rd.RState) = st4 at d4
  have hS4 : st4.steer = st3.steer := by
    rw [← hst4]; simp only []
    exact steer_other o 'P' r4 _ _ (by decide) (by decide)
  -- ~Other
  have d5 := RH.docSection_other o (0 + 1 + lv.length + 1 + lw.length + 1 + lc.length + 1 + lp.length)
    (Wr.titleLine "~Other " w) lo st4 'O' r5 ht5 hu5 hO
  refine ⟨{ st4 with sections := Rd.assign Rd.kOther (.text (joinWith ['\n'] (lo.map strip))) st4.sections },
    ?_, ?_, ?_, ?_, ?_, ?_⟩
  · simp only [RH.written, List.map_cons, List.map_nil, Rd.docSections, d1, d2, d3, d4, d5]
  · simp only []
    rw [← hst4, ← hst3, ← hst2, ← hst1]
    exact RH.assign_five _ _ _ _ _
  · simp only []
    rw [← hst4, ← hst3, ← hst2, ← hst1]
    rfl
  · simp only []
    rw [← hst4, ← hst3, ← hst2, ← hst1]; rfl
  · simp only []
    rw [← hst4, ← hst3, ← hst2, ← hst1]; rfl
  · simp only []
    rw [hS4, hS3, hS2]

/-! ## the steering values of a written header -/

/-- the value the reader's steering code finds for `key` in a written section: the value text of the item of that group when
there is exactly one (`"KEY" in section` is False for duplicates, whose session mnemonics carry suffixes) -/
def steerVal (o : Rd.ReadOpts) (key : String) (items : List Wr.WItem) : Option Str :=
  match items.filter (Cy.inGroup o key.toList) with
  | [x] => some x.value.text
  | _ => none

theorem lk_written (o : Rd.ReadOpts) (key : String) (hk : key.toList ∈ Rd.steerKeys) (items : List Wr.WItem) :
    lk o ((items.map (Wr.expected (RH.cvtCase o.mnemonicCase))).map RH.toRd) key = steerVal o key items := by
  unfold lk steerVal
  rw [RH.lookup_written _ _ _ (Rd.steerKey_nocolon _ _ hk)]
  show Option.map _ (Rd.uniq ((items.filter (Cy.inGroup o key.toList)).map _)) = _
  cases items.filter (Cy.inGroup o key.toList) with
  | nil => rfl
  | cons a t =>
    cases t with
    | nil => rfl
    | cons b t => rfl

theorem steerVal_of_versOK (o : Rd.ReadOpts) (version : String) (V : List Wr.WItem) (h : Wr.VersOK o version V) :
    steerVal o "VERS" V = some version.toList := by
  obtain ⟨x, hx, hxv⟩ := (Cy.versOK_iff o version V).mp h
  unfold steerVal
  rw [hx]
  simp only [hxv]

theorem steerVal_dlm_none (o : Rd.ReadOpts) (V : List Wr.WItem) (h : ∀ it ∈ V, upper it.orig ≠ "DLM".toList) :
    steerVal o "DLM" V = none := by
  unfold steerVal
  have : V.filter (Cy.inGroup o "DLM".toList) = [] := by
    apply List.filter_eq_nil_iff.mpr
    intro it hit
    have := RH.mcmp_dlm_false o it.orig (h it hit)
    unfold Cy.inGroup
    rw [this]; simp
  rw [this]

/-! ## the data section of the document -/

theorem docSection_data (o : Rd.ReadOpts) (n : Nat) (hdr : Str) (body : List Str) (st : Rd.RState)
    (h : Rd.sectionType (Rd.sline hdr) = .data) :
    Rd.docSection o n (hdr, body) st = .ok { st with data := st.data ++ [(n, n + body.length, Rd.sline hdr)] } := by
  unfold Rd.docSection
  simp only [h]

/-- **the header-level reader on the whole written file**: the header lines `write` emits, then a data title line and data lines,
every line followed by "\n".  The five sections come back as `C03_file` says, the steering values are those of the written
~Version and ~Well items, and the lines from the data title on are reported as the one data window. -/
theorem readLines_file (o : Rd.ReadOpts) (version : String) (wrap : Option Bool) (w : Nat) (las las' : Wr.WLas)
    (hlines : List Str) (hH : Wr.headerLines version wrap w las = .ok (hlines, las'))
    (hc : Cy.FileConf o version wrap las)
    (hdr : Str) (body : List Str) (hT : Rd.isTitle hdr = true) (hTd : Rd.sectionType (Rd.sline hdr) = .data)
    (hbt : ∀ b ∈ body, Rd.isTitle b = false) :
    Rd.readLines o ((hlines ++ hdr :: body).map (· ++ Tf.nl)) = .ok
      ⟨Cy.firstRead o version wrap las,
       ⟨some version.toList, steerVal o "WRAP" (RH.versionCopy version wrap las),
        steerVal o "NULL" (Wr.standardizeItems las.well), none⟩,
       [(hlines.length, hlines.length + body.length, Rd.sline hdr)]⟩ := by
  have hnl : ∀ c ∈ Tf.nl, isPySpace c = true := by decide
  unfold Wr.headerLines at hH
  cases hs : Wr.headerSections version wrap las with
  | error e => rw [hs] at hH; cases hH
  | ok r =>
    obtain ⟨secs, l2⟩ := r
    rw [hs] at hH
    simp only [Except.ok.injEq, Prod.mk.injEq] at hH
    obtain ⟨h1, _⟩ := hH
    obtain ⟨hver, lv, lw, lc, lp, wv, ww, wc, wp, rfl, _⟩ := RH.headerSections_ok version wrap las l2 secs hs
    have hmw' := Wr.standardizeItems_orig las.well (fun o => o.head? ≠ some '#' ∧ o.head? ≠ some '~') hc.hmw
    have hmp' := Wr.standardizeItems_orig las.params (fun o => o.head? ≠ some '#' ∧ o.head? ≠ some '~') hc.hmp
    have rv := Wr.C03_section version .version (RH.cvtCase o.mnemonicCase) _ lv (by decide) wv hc.hcv hc.hmv
    rw [← RH.readSection_version_prov version hver] at rv
    have rw' := Wr.C03_section version .well (RH.cvtCase o.mnemonicCase) _ lw (by decide) ww hc.hcw hmw'
    have rc := Wr.C03_section version .curves (RH.cvtCase o.mnemonicCase) _ lc (by decide) wc hc.hcc hc.hmc
    have rp := Wr.C03_section version .parameter (RH.cvtCase o.mnemonicCase) _ lp (by decide) wp hc.hcp hmp'
    have nv := RH.writeSection_notitle _ _ _ _ wv (fun it hit => Wr.NoTitleMnem.of_conf (hc.hcv it hit) (hc.hmv it hit))
    have nw := RH.writeSection_notitle _ _ _ _ ww (fun it hit => Wr.NoTitleMnem.of_conf (hc.hcw it hit) (hmw' it hit))
    have nc := RH.writeSection_notitle _ _ _ _ wc (fun it hit => Wr.NoTitleMnem.of_conf (hc.hcc it hit) (hc.hmc it hit))
    have np := RH.writeSection_notitle _ _ _ _ wp (fun it hit => Wr.NoTitleMnem.of_conf (hc.hcp it hit) (hmp' it hit))
    have no : ∀ b ∈ Wr.splitlines las.other, Rd.isTitle b = false := by
      intro b hb
      rw [Rd.isTitle_eq, RH.startsTilde_false_iff]
      exact hc.ho b hb
    have hlv : lk o (((RH.versionCopy version wrap las).map (Wr.expected (RH.cvtCase o.mnemonicCase))).map RH.toRd) "VERS" =
        some version.toList := by
      rw [lk_written o "VERS" (by simp [Rd.steerKeys])]
      exact steerVal_of_versOK o version _ hc.hvers
    obtain ⟨st, hst, hsec, hpl, hdata, hlas3, hsteer⟩ := docSections_written_full o version w lv lw lc lp
      (Wr.splitlines las.other) _ _ _ _ version.toList (RH.sectionOrders_some version hver) nv nw nc np rv rw' rc rp hlv
      (RH.classifyVer_written version hver)
    rw [lk_written o "WRAP" (by simp [Rd.steerKeys]), lk_written o "NULL" (by simp [Rd.steerKeys]),
      lk_written o "DLM" (by simp [Rd.steerKeys]), steerVal_dlm_none o _ hc.hdlm] at hsteer
    -- the document
    have hw5 := RH.wellFormed_written w lv lw lc lp (Wr.splitlines las.other) nv nw nc np no
    generalize hS5 : RH.written w [("~Version ", lv), ("~Well ", lw), ("~Curve Information ", lc), ("~Params ", lp),
      ("~Other ", Wr.splitlines las.other)] = secs5 at hst hw5
    have hl5 : hlines = Rd.flat secs5 := by rw [← h1, ← hS5, RH.flat_written]
    have hw6 : Rd.WellFormed (secs5 ++ [(hdr, body)]) := by
      intro tb htb
      rcases List.mem_append.mp htb with h | h
      · exact hw5 tb h
      · simp only [List.mem_singleton] at h
        subst h
        exact ⟨hT, hbt⟩
    have hdoc : (hlines ++ hdr :: body).map (· ++ Tf.nl) = [] ++ Rd.flat (eolSecs Tf.nl (secs5 ++ [(hdr, body)])) := by
      rw [flat_eol, flat_append, hl5]
      simp [Rd.flat]
    rw [hdoc, Rd.C05_read_rendered_lines o [] _ (by simp) (wellFormed_eol Tf.nl hnl _ hw6) (by simp [eolSecs])]
    simp only [List.length_nil]
    rw [docSections_eol o _ Tf.nl hnl, docSections_append, hst]
    simp only [Rd.docSections, docSection_data o _ hdr body st hTd]
    have hsz : 0 + Rd.size secs5 = hlines.length := by rw [hl5, Rd.flat_length]; omega
    rw [hsz]
    simp only [Rd.finishRead, hsteer, hpl, hdata, hlas3, hsec, List.nil_append, Bool.false_eq_true, if_false]
    have hmm : ∀ items : List Wr.WItem, (items.map (Wr.expected (RH.cvtCase o.mnemonicCase))).map RH.toRd =
        items.map (Wr.rdExpected o) := by
      intro items; rw [List.map_map]; rfl
    simp [hmm, Cy.firstRead, Cy.otherRead]

/-! ## the written data lines are no title lines; the `~A` line is a data title -/

theorem fmtFixed_no_tilde (N : Nat) (x : Dw.F64) : ∀ ch ∈ Dw.fmtFixed N x, ch ≠ '~' := by
  intro ch hch
  cases x with
  | nan =>
    have h2 : ∀ c ∈ ['n', 'a', 'n'], c ≠ '~' := by decide
    exact h2 ch hch
  | inf neg =>
    cases neg
    · have h2 : ∀ c ∈ ['i', 'n', 'f'], c ≠ '~' := by decide
      exact h2 ch hch
    · have h2 : ∀ c ∈ ['-', 'i', 'n', 'f'], c ≠ '~' := by decide
      exact h2 ch hch
  | finite neg m e =>
    have := Dw.fmtFixed_plain N neg m e ch hch
    intro e'
    subst e'
    revert this; decide

theorem cellToken_head (null : Str) (hn : null.head? ≠ some '~') (f : Dw.Fmt) (x : Dw.F64) :
    (Dw.cellToken null f x).head? ≠ some '~' := by
  unfold Dw.cellToken
  split
  · exact hn
  · intro h
    have := List.mem_of_mem_head? h
    exact fmtFixed_no_tilde _ _ _ this rfl

theorem rowTokensFrom_mem (c : Dw.RowCfg) (null : Str) (j : Nat) (cells : List Dw.F64) :
    ∀ t ∈ Dw.rowTokensFrom c null j cells, ∃ k x, t = Dw.cellToken null (c.colFmt k) x := by
  induction cells generalizing j with
  | nil => intro t ht; cases ht
  | cons x xs ih =>
    intro t ht
    simp only [Dw.rowTokensFrom, List.mem_cons] at ht
    rcases ht with rfl | ht
    · exact ⟨j, x, rfl⟩
    · exact ih (j + 1) t ht

theorem core_head {toks : List Str} {s : Str} (h : Dt.Core toks s) : ∃ t ts, toks = t :: ts ∧ s.head? = t.head? := by
  cases h with
  | one ht => exact ⟨_, [], rfl, rfl⟩
  | @cons t sep rest ts ht _ _ _ =>
    refine ⟨t, ts, rfl, ?_⟩
    cases t with
    | nil => exact absurd rfl ht.ne
    | cons a as => rfl

/-- **no body line of a written data section is taken for a section title**, when the NULL text does not start with '~' -/
theorem body_notitle {cfg : Dw.DataCfg} {null : Str} {mn : List Str} {rows : List (List Dw.F64)} {c : Dw.RowCfg} {n : Nat}
    {hdr : Str} {body : List Str} (w : Rt.Written cfg null mn rows c n hdr body) (hn : null.head? ≠ some '~') :
    ∀ b ∈ body, Rd.isTitle b = false := by
  intro b hb
  have hq := Rt.body_tokens_quiet w.ok w.nullQuiet _ _ rows body w.body_eq b hb
  rw [Rd.isTitle_eq]
  rcases Rt.line_shape' b hq with ⟨_, hws⟩ | ⟨pre, core, post, hpre, hpost, hcore, hl⟩
  · rw [Rd.strip_allspace b hws]; rfl
  · obtain ⟨a, cs, hc, hca⟩ := Dt.core_head_tok hcore
    obtain ⟨t, ts, htoks, hhead⟩ := core_head hcore
    have hsp := (Dt.tokChar_parts a hca).1
    rw [hl, hc, List.cons_append, Rd.strip_split pre a (cs ++ post) hpre hsp, RH.startsTilde_false_iff]
    -- the first character is the first character of a cell token
    have htb : t ∈ Dw.tokensWs b := by rw [htoks]; simp
    have hmem : t ∈ body.flatMap Dw.tokensWs := List.mem_flatMap.mpr ⟨b, hb, htb⟩
    rw [Dw.dwBodyLines_tokens w.ok _ _ rows body w.body_eq] at hmem
    obtain ⟨row, _, hrow⟩ := List.mem_flatMap.mp hmem
    obtain ⟨k, x, rfl⟩ := rowTokensFrom_mem c null 0 row t hrow
    have := cellToken_head null hn (c.colFmt k) x
    rw [← hhead, hc] at this
    simpa using this

theorem dataHeaderLine_shape (c : Dw.RowCfg) (null : Str) (mh : Bool) (dsh : Str) (hw : Nat) (mn : List Str)
    (fr : Option (List Dw.F64)) (hdr : Str) (h : Dw.dataHeaderLine c null mh dsh hw mn fr = some hdr) :
    ∃ tail, hdr = dsh ++ ' ' :: tail := by
  unfold Dw.dataHeaderLine at h
  cases mh with
  | false =>
    simp only [Bool.false_eq_true, if_false, Option.some.injEq] at h
    subst h
    exact ⟨List.replicate (hw - (dsh ++ [' ']).length) '-', by simp [ljust]⟩
  | true =>
    simp only [if_true] at h
    split at h
    · cases h
    · rename_i widths _
      split at h
      · cases h
      · rename_i hvs _
        cases hvs with
        | nil =>
          simp only [Option.some.injEq] at h
          subst h
          exact ⟨[], by simp⟩
        | cons hv rest =>
          simp only [Option.some.injEq] at h
          subst h
          exact ⟨Dw.trimLoop (dsh ++ [' ']).length 0 hv ++ rest.flatten, by simp⟩

/-- **the `~A` line is a data title**: a `data_section_header` that starts with `~A` / `~a` (the default is `~ASCII`) -/
theorem dataTitle_ok (c : Dw.RowCfg) (null : Str) (mh : Bool) (dsh : Str) (hw : Nat) (mn : List Str)
    (fr : Option (List Dw.F64)) (hdr : Str) (h : Dw.dataHeaderLine c null mh dsh hw mn fr = some hdr)
    (a : Char) (r : Str) (hd : dsh = '~' :: a :: r) (ha : upperC a = 'A') :
    Rd.isTitle hdr = true ∧ Rd.sectionType (Rd.sline hdr) = .data := by
  obtain ⟨tail, rfl⟩ := dataHeaderLine_shape c null mh dsh hw mn fr hdr h
  subst hd
  have hsa : isPySpace a = false := by
    rw [← Cy.letterMap_space Cy.upperC_letterMap a, ha]; decide
  have hst : strip ('~' :: a :: r ++ ' ' :: tail) = '~' :: a :: Rd.rdrop isPySpace (r ++ ' ' :: tail) := by
    have h1 := Rd.strip_split [] '~' (a :: r ++ ' ' :: tail) (by simp) (by decide)
    have h2 := Rd.rdrop_app isPySpace [] a (r ++ ' ' :: tail) hsa
    simp only [List.nil_append, List.cons_append] at h1 h2 ⊢
    rw [h1, h2]
  refine ⟨by rw [Rd.isTitle_eq, hst]; rfl, ?_⟩
  rw [Rd.sline_eq_strip]
  unfold Rd.sectionType
  simp only [Rd.sline_eq_strip, Rd.strip_idem]
  rw [hst]
  have hu : upper (List.take 2 ('~' :: a :: Rd.rdrop isPySpace (r ++ ' ' :: tail))) = "~A".toList := by
    simp only [List.take, upper, List.map_cons, List.map_nil, ha]
    rfl
  rw [hu]
  rfl

/-! ## `Tf.readFull` on the written file -/

theorem allWs_nl : Dt.AllWs Tf.nl := by
  intro c hc
  have : c = '\n' := by simpa [Tf.nl] using hc
  subst this
  decide

theorem declaredCount_firstRead (o : Rd.ReadOpts) (version : String) (wrap : Option Bool) (las : Wr.WLas) :
    Tf.declaredCount (Cy.firstRead o version wrap las) = las.curves.length := by
  have : (Cy.firstRead o version wrap las).lookup Rd.kCurves = some (.items (las.curves.map (Wr.rdExpected o))) := rfl
  unfold Tf.declaredCount
  rw [this]
  simp

/-- the text of one `write` call as the reader sees it: header lines, the `~A` line, the data lines, each followed by "\n" -/
def fileDoc (hlines : List Str) (hdr : Str) (body : List Str) : Tf.Doc := (hlines ++ hdr :: body).map (· ++ Tf.nl)

theorem fileDoc_eq (hlines : List Str) (hdr : Str) (body : List Str) :
    fileDoc hlines hdr body = hlines.map (· ++ Tf.nl) ++ (hdr ++ Tf.nl) :: (body.map (· ++ Tf.nl) ++ []) := by
  simp [fileDoc]

/-- the steering values of the written header -/
def fileSteer (o : Rd.ReadOpts) (version : String) (wrap : Option Bool) (las : Wr.WLas) : Rd.Steer :=
  ⟨some version.toList, steerVal o "WRAP" (RH.versionCopy version wrap las),
   steerVal o "NULL" (Wr.standardizeItems las.well), none⟩

/-- **`readFull` = the header of `C03_file` + `readData` on the one data window** -/
theorem readFull_file (opts : Tf.Opts) (nullOf : Option Str → Option Str) (ft : Dt.FloatTable)
    (version : String) (wrap : Option Bool) (w : Nat) (las las' : Wr.WLas)
    (hlines : List Str) (hH : Wr.headerLines version wrap w las = .ok (hlines, las'))
    (hc : Cy.FileConf opts.hdr version wrap las)
    (hdr : Str) (body : List Str) (hT : Rd.isTitle hdr = true) (hTd : Rd.sectionType (Rd.sline hdr) = .data)
    (hbt : ∀ b ∈ body, Rd.isTitle b = false) :
    Tf.readFull opts nullOf ft (fileDoc hlines hdr body) = .ok
      ⟨Cy.firstRead opts.hdr version wrap las, fileSteer opts.hdr version wrap las,
       [⟨hlines.length, hlines.length + body.length,
         Dt.readData opts.dat (fileDoc hlines hdr body) hlines.length (hlines.length + body.length)
           (Tf.dtSteer nullOf (fileSteer opts.hdr version wrap las)) las.curves.length ft⟩]⟩ := by
  unfold Tf.readFull fileDoc
  rw [readLines_file opts.hdr version wrap w las las' hlines hH hc hdr body hT hTd hbt]
  simp only [declaredCount_firstRead, List.map_cons, List.map_nil]
  rfl

theorem dtSteer_file (nullOf : Option Str → Option Str) (o : Rd.ReadOpts) (version : String) (wrap : Option Bool)
    (las : Wr.WLas) :
    (Tf.dtSteer nullOf (fileSteer o version wrap las)).delimiter = .space ∧
    (Tf.dtSteer nullOf (fileSteer o version wrap las)).nullValue = nullOf (steerVal o "NULL" (Wr.standardizeItems las.well)) ∧
    (∀ t, steerVal o "WRAP" (RH.versionCopy version wrap las) = some t →
      (Tf.dtSteer nullOf (fileSteer o version wrap las)).wrapDeclared = true ∧
      (Tf.dtSteer nullOf (fileSteer o version wrap las)).wrapped = t) := by
  refine ⟨rfl, rfl, ?_⟩
  intro t ht
  simp [Tf.dtSteer, fileSteer, ht]

/-- `readData` on the data window of the written file, WRAP = YES in the written header -/
theorem readData_file_wrapYes {cfg : Dw.DataCfg} {null : Str} {mn : List Str} {rows : List (List Dw.F64)} {c : Dw.RowCfg}
    {n : Nat} {hdr : Str} {body : List Str} (wd : Rt.Written cfg null mn rows c n hdr body)
    (hlines : List Str) (e : Dt.Engine) (p : Dt.NullPolicy) (st : Dt.Steer) (ft : Dt.FloatTable)
    (hdlm : st.delimiter = .space) (hwd : st.wrapDeclared = true) (hwy : st.wrapped = Dt.yesTxt) :
    Dt.readData ⟨e, p⟩ (fileDoc hlines hdr body) hlines.length (hlines.length + body.length) st n ft =
      .ok (.normal, Dt.assignCurves n (Dt.applyNull (p == .strict) st.nullValue
        (Dt.matrixColumns ft n (Rt.tokenRows c null rows)))) := by
  have h := Dw.C01_roundtrip_read_wrapYes wd e p st ft Tf.nl allWs_nl (hlines.map (· ++ Tf.nl)) (hdr ++ Tf.nl) []
    hdlm hwd hwy
  rw [fileDoc_eq]
  simpa using h

/-- `readData` on the data window of the written file, written with `wrap=False`, WRAP ≠ YES in the written header -/
theorem readData_file_unwrapped {cfg : Dw.DataCfg} {null : Str} {mn : List Str} {rows : List (List Dw.F64)} {c : Dw.RowCfg}
    {n : Nat} {hdr : Str} {body : List Str} (wd : Rt.Written cfg null mn rows c n hdr body) (hwrap : cfg.wrap = false)
    (hlines : List Str) (e : Dt.Engine) (p : Dt.NullPolicy) (st : Dt.Steer) (d : Nat) (ft : Dt.FloatTable)
    (hdlm : st.delimiter = .space) (hw : st.wrapped ≠ Dt.yesTxt) :
    (Dt.readData ⟨e, p⟩ (fileDoc hlines hdr body) hlines.length (hlines.length + body.length) st d ft).map Prod.snd =
      .ok (Dt.assignCurves d (Dt.applyNull (p == .strict) st.nullValue
        (Dt.matrixColumns ft n (Rt.tokenRows c null rows)))) := by
  have h := Dw.C01_roundtrip_read_unwrapped wd hwrap e p st d ft Tf.nl allWs_nl (hlines.map (· ++ Tf.nl)) (hdr ++ Tf.nl) []
    hdlm hw (Or.inl rfl)
  rw [fileDoc_eq]
  simpa using h

/-! ## the curves, in the words of the property -/

theorem matrixColumns_length (ft : Dt.FloatTable) (n : Nat) (toks : List (List Str)) :
    (Dt.matrixColumns ft n toks).length = n := by
  simp [Dt.matrixColumns]

theorem matrixColumns_col_length (ft : Dt.FloatTable) (n : Nat) (toks : List (List Str)) (j : Nat) (col : Dt.Column)
    (h : (Dt.matrixColumns ft n toks)[j]? = some col) : col.length = toks.length := by
  unfold Dt.matrixColumns at h
  rw [List.getElem?_map] at h
  cases hr : (List.range n)[j]? with
  | none => rw [hr] at h; cases h
  | some k =>
    rw [hr] at h
    simp only [Option.map_some, Option.some.injEq] at h
    subst h
    rw [Dt.typedColumn_length]; simp

/-- `n` columns assigned to `n` declared curves: curve `j` is column `j`, nothing extra, nothing missing -/
theorem assignCurves_square (n : Nat) (cols : List Dt.Column) (h : cols.length = n) :
    (Dt.assignCurves n cols).length = n ∧ (Dt.assignCurves n cols).map Prod.snd = cols ∧
    ∀ j, j < n → ((Dt.assignCurves n cols)[j]?).map Prod.fst = some (.declared j) := by
  have e : Dt.assignCurves n cols = Dt.assignFrom n 0 cols := by
    unfold Dt.assignCurves
    rw [h]; simp
  rw [e]
  refine ⟨by rw [Dt.assignFrom_length, h], Dt.assignFrom_snd n 0 cols, ?_⟩
  intro j hj
  rw [Dt.assignFrom_getElem?]
  have : j < cols.length := by omega
  rw [List.getElem?_eq_getElem this]
  simp [hj]

end Lasio.Fr
