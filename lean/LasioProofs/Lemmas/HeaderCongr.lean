import LasioProofs.Lemmas.FileDlm
/-
CONGRUENCE of the header writer in the item TEXTS.

`Wr.headerLines v wrap width las` formats, per section, the lines `formatItem (orderOf … it.orig) (sectionWidths …) it`; an item enters
only through `text4 it = (original mnemonic, unit, the text printed for the value, descr)` — `get_section_widths` is computed from the same
four texts, the order is looked up by the original mnemonic.  Two warts of the code are visible in the statement:
  * ~Version is not formatted as it is but as the COPY `RH.versionCopy v wrap las` (WRAP and VERS set by `SectionItems.set_item`, which
    looks the items up by their SESSION mnemonic under `mnemonic_transforms`): the ~Version hypothesis is about that copy;
  * ~Well / ~Parameter values are formatted after `standardize_value`, which looks at `not value`, `value == 0`, `value is None`:
    the hypothesis is about `Wr.standardizeItems las.well` (`…_of_values` gives it from equal values).

  `writeSection_congr`    equal `text4` lists ⇒ equal `writeSection` (lines or error)
  `headerLines_congr`     two successful `headerLines` whose ~Version copies, standardised ~Well / ~Parameter, ~Curves agree on `text4`
                          (position by position) and whose ~Other texts split into the same lines give THE SAME LINES
  `standardize_text4_of_values`  equal (mnemonic, unit, VALUE, descr) lists give equal standardised texts
  `text4_of_rdExpected`   items that the reader returns equal (`Wr.rdExpected`: case-mapped mnemonic, unit, value text, descr) agree on
                          `text4` when the mnemonics on both sides are fixed by the case map
  `caseStable_reread`     the re-read object `Cy.lasOfRead rv o (Cy.firstRead …)` is `CaseStable` by itself unless `mnemonic_case = lower`
  `header_text_fixed`     THE HEADER TEXT IS A FIXED POINT: under the hypotheses of `Fd.cycle_core_dlm` (C03 conformance, `CycleConf`,
                          `SpeltConf rv`), `CaseStable` on both sides and stripped ~Other lines, `headerLines` of the re-read object
                          `Cy.lasOfRead rv o (Cy.firstRead o v wrap las)` returns the lines of `headerLines` of `las`.
  `header_text_fixed_after_one_cycle`  without `CaseStable` / `OtherStripped` (read option not "lower"): the header of the SECOND re-read is the
                          header of the first — the case mapping and the stripping of ~Other lines are one-step effects
-/
namespace Lasio.Hc
open Lasio Lasio.Wr

/-- the four texts of an item that reach the file -/
def text4 (it : WItem) : Str × Str × Str × Str := (it.orig, it.unit, it.value.text, it.descr)

def rhs4 (o : Order) (t : Str × Str × Str × Str) : Str := match o with | .valueDescr => t.2.2.1 | .descrValue => t.2.2.2
def last4 (o : Order) (t : Str × Str × Str × Str) : Str := match o with | .valueDescr => t.2.2.2 | .descrValue => t.2.2.1

def widths4 (ord : Str → Order) (ts : List (Str × Str × Str × Str)) : Widths :=
  if ts.isEmpty then ⟨10, 40⟩ else
    ⟨maxList (ts.map fun t => t.1.length), maxList (ts.map fun t => t.2.1.length + 1 + (rhs4 (ord t.1) t).length)⟩

def format4 (o : Order) (W : Widths) (t : Str × Str × Str × Str) : Str :=
  ljust W.left ' ' t.1 ++
    '.' :: (t.2.1 ++ List.replicate (W.middle - t.2.1.length - (rhs4 o t).length) ' ' ++ rhs4 o t ++ ' ' :: ':' :: ' ' :: last4 o t)

def lines4 (ord : Str → Order) (ts : List (Str × Str × Str × Str)) : List Str :=
  ts.map fun t => format4 (ord t.1) (widths4 ord ts) t

theorem rhs4_eq (o : Order) (it : WItem) : rhs4 o (text4 it) = rhsOf o it := by cases o <;> rfl
theorem last4_eq (o : Order) (it : WItem) : last4 o (text4 it) = lastOf o it := by cases o <;> rfl

theorem widths4_eq (ord : Str → Order) (items : List WItem) : widths4 ord (items.map text4) = sectionWidths ord items := by
  unfold widths4 sectionWidths
  cases items with
  | nil => rfl
  | cons it rest =>
    simp only [List.map_cons, List.isEmpty_cons, Bool.false_eq_true, if_false, List.map_map, rhs4_eq]
    rfl

theorem format4_eq (o : Order) (W : Widths) (it : WItem) : format4 o W (text4 it) = formatItem o W it := by
  unfold format4 formatItem
  rw [rhs4_eq, last4_eq]
  rfl

/-- the lines of a section are a function of the `text4` list -/
theorem sectionLines_eq (ord : Str → Order) (items : List WItem) : sectionLines ord items = lines4 ord (items.map text4) := by
  unfold sectionLines lines4
  rw [widths4_eq, List.map_map]
  apply List.map_congr_left
  intro it _
  simp only [Function.comp]
  rw [format4_eq]
  rfl

theorem all_orig_congr (p : WItem → Bool) (hp : ∀ a b : WItem, a.orig = b.orig → p a = p b) :
    ∀ l l' : List WItem, l.map text4 = l'.map text4 → l.all p = l'.all p := by
  intro l
  induction l with
  | nil => intro l' h; cases l' with
    | nil => rfl
    | cons _ _ => simp at h
  | cons a l ih =>
    intro l' h
    cases l' with
    | nil => simp at h
    | cons b l' =>
      simp only [List.map_cons, List.cons.injEq] at h
      simp only [List.all_cons]
      rw [ih l' h.2, hp a b (congrArg (·.1) h.1)]

/-- **one section**: the same four texts, position by position, give the same result -/
theorem writeSection_congr (version sect : String) (l l' : List WItem) (h : l.map text4 = l'.map text4) :
    writeSection version sect l = writeSection version sect l' := by
  unfold writeSection
  cases sectionOrders version sect with
  | none => rfl
  | some r =>
    simp only
    rw [sectionLines_eq, sectionLines_eq, h]
    congr 2
    exact all_orig_congr _ (fun a b e => by rw [e]) l l' h

theorem headerLines_unfold (version : String) (wrap : Option Bool) (w : Nat) (las las' : WLas) (lines : List Str)
    (h : headerLines version wrap w las = .ok (lines, las')) :
    ∃ lv lw lc lp,
      writeSection version "Version" (RH.versionCopy version wrap las) = .ok lv ∧
      writeSection version "Well" (standardizeItems las.well) = .ok lw ∧
      writeSection version "Curves" las.curves = .ok lc ∧
      writeSection version "Parameter" (standardizeItems las.params) = .ok lp ∧
      lines = ([("~Version ", lv), ("~Well ", lw), ("~Curve Information ", lc), ("~Params ", lp),
        ("~Other ", splitlines las.other)] : List (String × List Str)).flatMap (fun tl => titleLine tl.1 w :: tl.2) := by
  unfold headerLines at h
  cases hs : headerSections version wrap las with
  | error e => rw [hs] at h; cases h
  | ok r =>
    obtain ⟨secs, l2⟩ := r
    rw [hs] at h
    simp only [Except.ok.injEq, Prod.mk.injEq] at h
    obtain ⟨_, lv, lw, lc, lp, h1, h2, h3, h4, h5, _⟩ := RH.headerSections_ok version wrap las l2 secs hs
    exact ⟨lv, lw, lc, lp, h1, h2, h3, h4, by rw [← h.1, h5]⟩

/-- **The header writer depends on the items through their four texts only.** -/
theorem headerLines_congr (version : String) (wrap : Option Bool) (w : Nat) (las las2 la lb : WLas) (lines lines2 : List Str)
    (h1 : headerLines version wrap w las = .ok (lines, la)) (h2 : headerLines version wrap w las2 = .ok (lines2, lb))
    (hV : (RH.versionCopy version wrap las).map text4 = (RH.versionCopy version wrap las2).map text4)
    (hW : (standardizeItems las.well).map text4 = (standardizeItems las2.well).map text4)
    (hC : las.curves.map text4 = las2.curves.map text4)
    (hP : (standardizeItems las.params).map text4 = (standardizeItems las2.params).map text4)
    (hO : splitlines las.other = splitlines las2.other) : lines = lines2 := by
  obtain ⟨lv, lw, lc, lp, a1, a2, a3, a4, a5⟩ := headerLines_unfold version wrap w las la lines h1
  obtain ⟨lv', lw', lc', lp', b1, b2, b3, b4, b5⟩ := headerLines_unfold version wrap w las2 lb lines2 h2
  rw [writeSection_congr _ _ _ _ hV, b1] at a1
  rw [writeSection_congr _ _ _ _ hW, b2] at a2
  rw [writeSection_congr _ _ _ _ hC, b3] at a3
  rw [writeSection_congr _ _ _ _ hP, b4] at a4
  cases a1; cases a2; cases a3; cases a4
  rw [a5, b5, hO]

/-- equal values and units give equal standardised texts -/
theorem standardize_text4_of_values (l l' : List WItem)
    (h : l.map (fun it => (it.orig, it.unit, it.value, it.descr)) = l'.map (fun it => (it.orig, it.unit, it.value, it.descr))) :
    (standardizeItems l).map text4 = (standardizeItems l').map text4 := by
  induction l generalizing l' with
  | nil =>
    cases l' with
    | nil => rfl
    | cons _ _ => simp at h
  | cons a l ih =>
    cases l' with
    | nil => simp at h
    | cons b l' =>
      simp only [List.map_cons, List.cons.injEq, Prod.mk.injEq] at h
      obtain ⟨⟨e1, e2, e3, e4⟩, ht⟩ := h
      have := ih l' ht
      simp only [standardizeItems, List.map_cons, List.map_map, List.cons.injEq] at this ⊢
      refine ⟨?_, this⟩
      simp only [text4, e1, e2, e3, e4]

/-! ## from "the reader returns the same items" to "the same four texts" -/

/-- the mnemonics are fixed by the case map of the read option -/
def CaseStable (o : Rd.ReadOpts) (l : List WItem) : Prop :=
  ∀ it ∈ l, caseMap (RH.cvtCase o.mnemonicCase) it.orig = it.orig

theorem caseStable_preserve (o : Rd.ReadOpts) (h : o.mnemonicCase = .preserve) (l : List WItem) : CaseStable o l := by
  intro it _
  rw [h]
  rfl

theorem text4_of_rdExpected (o : Rd.ReadOpts) (l l' : List WItem) (h : l.map (rdExpected o) = l'.map (rdExpected o))
    (hs : CaseStable o l) (hs' : CaseStable o l') : l.map text4 = l'.map text4 := by
  induction l generalizing l' with
  | nil =>
    cases l' with
    | nil => rfl
    | cons _ _ => simp at h
  | cons a l ih =>
    cases l' with
    | nil => simp at h
    | cons b l' =>
      simp only [List.map_cons, List.cons.injEq] at h ⊢
      refine ⟨?_, ih l' h.2 (fun it hit => hs it (by simp [hit])) (fun it hit => hs' it (by simp [hit]))⟩
      have h1 := h.1
      simp only [rdExpected, Rd.RItem.mk.injEq] at h1
      obtain ⟨e1, e2, e3, e4⟩ := h1
      rw [hs a (by simp), hs' b (by simp)] at e1
      simp only [text4, e1, e2, e3, e4]

/-- every line of the ~Other text is already stripped (the reader stores the stripped lines) -/
def OtherStripped (t : Str) : Prop := ∀ l ∈ splitlines t, strip l = l

instance (t : Str) : Decidable (OtherStripped t) := by unfold OtherStripped; infer_instance

/-! ## the re-read object is case-stable by itself (unless `mnemonic_case="lower"`) -/

theorem caseStable_itemsOfRead (o : Rd.ReadOpts) (rv : Str → WVal) (tr : Bool) (l : List WItem) :
    CaseStable o (Cy.itemsOfRead rv tr (l.map (rdExpected o))) := by
  intro z hz
  obtain ⟨s, r, hr, rfl⟩ := Cy.mem_itemsOfRead rv tr _ z hz
  obtain ⟨it, _, rfl⟩ := List.mem_map.mp hr
  exact Cy.caseMap_idem _ _

theorem versItem_orig (version : String) (vers : WItem) (h : versItem version = some vers) : vers.orig = "VERS".toList := by
  unfold versItem at h
  split at h
  · cases h; rfl
  · split at h
    · cases h; rfl
    · cases h

theorem caseMap_VERS_WRAP (o : Rd.ReadOpts) (hlow : o.mnemonicCase ≠ .lower) :
    caseMap (RH.cvtCase o.mnemonicCase) "VERS".toList = "VERS".toList ∧
    caseMap (RH.cvtCase o.mnemonicCase) "WRAP".toList = "WRAP".toList := by
  cases hc : o.mnemonicCase with
  | lower => exact absurd hc hlow
  | upper => exact ⟨by decide, by decide⟩
  | preserve => exact ⟨rfl, rfl⟩

theorem caseStable_wSetItem (o : Rd.ReadOpts) (tr : Bool) (key : Str) (it : WItem) (l : List WItem)
    (hit : caseMap (RH.cvtCase o.mnemonicCase) it.orig = it.orig) (hl : CaseStable o l) : CaseStable o (wSetItem tr key it l) := by
  intro z hz
  obtain ⟨y, hy, e⟩ := RH.wSetItem_mem tr key it l z hz
  have eo : z.orig = y.orig := congrArg (·.1) e
  rw [eo]
  rcases hy with rfl | hy
  · exact hit
  · exact hl y hy

theorem caseStable_versionCopy (o : Rd.ReadOpts) (version : String) (wrap : Option Bool) (L : WLas)
    (hlow : o.mnemonicCase ≠ .lower) (hL : CaseStable o L.version) : CaseStable o (RH.versionCopy version wrap L) := by
  obtain ⟨hVERS, hWRAP⟩ := caseMap_VERS_WRAP o hlow
  have hws : CaseStable o (RH.wrapSection wrap L) := by
    unfold RH.wrapSection
    cases wrap with
    | none => exact hL
    | some w => exact caseStable_wSetItem o _ _ _ _ (by rw [Cy.wrapItem_orig]; exact hWRAP) hL
  unfold RH.versionCopy
  cases hvi : versItem version with
  | none => exact hws
  | some vers => exact caseStable_wSetItem o _ _ _ _ (by rw [versItem_orig version vers hvi]; exact hVERS) hws

/-- the mnemonics of the object `read()` builds are case-mapped already, and the `VERS` / `WRAP` items `write` substitutes are upper case:
whatever `write` prints for it is fixed by the case map, unless the read option is "lower" -/
theorem caseStable_reread (o : Rd.ReadOpts) (rv : Str → WVal) (version : String) (wrap : Option Bool) (las : WLas)
    (hlow : o.mnemonicCase ≠ .lower) :
    CaseStable o (Cy.writtenItems version wrap (Cy.lasOfRead rv o (Cy.firstRead o version wrap las))) := by
  rw [Cy.lasOfRead_firstRead]
  have hA := caseStable_itemsOfRead o rv (o.mnemonicCase != .preserve)
  have hstd : ∀ (l : List WItem), CaseStable o l → CaseStable o (standardizeItems l) := by
    intro l hl z hz
    obtain ⟨y, hy, rfl⟩ := List.mem_map.mp hz
    exact hl y hy
  intro it hit
  simp only [Cy.writtenItems, List.mem_append] at hit
  rcases hit with ((hit | hit) | hit) | hit
  · exact caseStable_versionCopy o version wrap _ hlow (hA _) it hit
  · exact hstd _ (hA _) it hit
  · exact hA _ it hit
  · exact hstd _ (hA _) it hit

/-- **The header text is a fixed point of read -> write.** -/
theorem header_text_fixed (o : Rd.ReadOpts) {rv : Str → WVal} (hrv : Cy.Retype rv) (version : String) (wrap : Option Bool)
    (w : Nat) (las las' : WLas) (lines : List Str) (h : headerLines version wrap w las = .ok (lines, las'))
    (hc : Fd.FileConfD o version wrap las) (hx : Cy.CycleConf o version wrap las) (hsp : Cy.SpeltConf rv version wrap las)
    (hcase : CaseStable o (Cy.writtenItems version wrap las))
    (hcase1 : CaseStable o (Cy.writtenItems version wrap (Cy.lasOfRead rv o (Cy.firstRead o version wrap las))))
    (hoth : OtherStripped las.other) :
    ∃ las2', headerLines version wrap w (Cy.lasOfRead rv o (Cy.firstRead o version wrap las)) = .ok (lines, las2') := by
  have hver := Cy.headerLines_version version wrap w las las' lines h
  obtain ⟨_, _, _, hfix, htot⟩ := Fd.cycle_core_dlm o hrv version wrap las hver hc hx hsp
  obtain ⟨lines2, las2', h2⟩ := htot w
  refine ⟨las2', ?_⟩
  have hfix' := hfix
  unfold Cy.firstRead at hfix'
  simp only [List.cons.injEq, Prod.mk.injEq, Rd.SecVal.items.injEq, Rd.SecVal.text.injEq, true_and, and_true] at hfix'
  obtain ⟨fV, fW, fC, fP, fO⟩ := hfix'
  have eq : lines2 = lines := by
    apply headerLines_congr version wrap w _ las las2' las' lines2 lines h2 h
    · exact text4_of_rdExpected o _ _ fV (fun it hit => hcase1 it (by simp [Cy.writtenItems, hit]))
        (fun it hit => hcase it (by simp [Cy.writtenItems, hit]))
    · exact text4_of_rdExpected o _ _ fW (fun it hit => hcase1 it (by simp [Cy.writtenItems, hit]))
        (fun it hit => hcase it (by simp [Cy.writtenItems, hit]))
    · exact text4_of_rdExpected o _ _ fC (fun it hit => hcase1 it (by simp [Cy.writtenItems, hit]))
        (fun it hit => hcase it (by simp [Cy.writtenItems, hit]))
    · exact text4_of_rdExpected o _ _ fP (fun it hit => hcase1 it (by simp [Cy.writtenItems, hit]))
        (fun it hit => hcase it (by simp [Cy.writtenItems, hit]))
    · show splitlines (Cy.secText Rd.kOther (Cy.firstRead o version wrap las)) = splitlines las.other
      have : Cy.secText Rd.kOther (Cy.firstRead o version wrap las) = Cy.otherRead las.other := by
        have h1 : (Rd.kOther == Rd.kVersion) = false := by decide
        have h2 : (Rd.kOther == Rd.kWell) = false := by decide
        have h3 : (Rd.kOther == Rd.kCurves) = false := by decide
        have h4 : (Rd.kOther == Rd.kParameter) = false := by decide
        have h5 : (Rd.kOther == Rd.kOther) = true := by decide
        simp only [Cy.secText, Cy.firstRead, List.lookup, h1, h2, h3, h4, h5]
      rw [this, Cy.splitlines_otherRead _ hx.hol]
      conv => rhs; rw [← List.map_id (splitlines las.other)]
      apply List.map_congr_left
      intro l hl
      exact hoth l hl
  rw [← eq]
  exact h2

theorem lasOfRead_other (o : Rd.ReadOpts) (rv : Str → WVal) (version : String) (wrap : Option Bool) (las : WLas) :
    (Cy.lasOfRead rv o (Cy.firstRead o version wrap las)).other = Cy.otherRead las.other := by
  rw [Cy.lasOfRead_firstRead]

theorem otherStripped_otherRead (t : Str) (h : Cy.OtherLast t) : OtherStripped (Cy.otherRead t) := by
  intro l hl
  rw [Cy.splitlines_otherRead t h] at hl
  obtain ⟨l0, _, rfl⟩ := List.mem_map.mp hl
  exact Rd.strip_idem l0

/-- **AFTER ONE CYCLE the header text is a fixed point, whatever the case of the mnemonics and the padding of the ~Other lines were**
(`mnemonic_case` not "lower"): `las1` the re-read of `las`, `las2` the re-read of `las1`: `headerLines las2` returns the lines of
`headerLines las1`.  (`SpeltConf` is still assumed for `las`: the re-spelling `1.00000 -> 1.0` is not covered.) -/
theorem header_text_fixed_after_one_cycle (o : Rd.ReadOpts) {rv : Str → WVal} (hrv : Cy.Retype rv) (version : String) (wrap : Option Bool)
    (w : Nat) (las : WLas) (hver : version = "1.2" ∨ version = "2.0")
    (hc : Fd.FileConfD o version wrap las) (hx : Cy.CycleConf o version wrap las) (hsp : Cy.SpeltConf rv version wrap las)
    (hlow : o.mnemonicCase ≠ .lower) :
    ∃ lines1 la lb,
      headerLines version wrap w (Cy.lasOfRead rv o (Cy.firstRead o version wrap las)) = .ok (lines1, la) ∧
      headerLines version wrap w (Cy.lasOfRead rv o (Cy.firstRead o version wrap
        (Cy.lasOfRead rv o (Cy.firstRead o version wrap las)))) = .ok (lines1, lb) := by
  obtain ⟨hc1, hx1, hsp1, _, htot⟩ := Fd.cycle_core_dlm o hrv version wrap las hver hc hx hsp
  obtain ⟨lines1, la, h1⟩ := htot w
  obtain ⟨lb, h2⟩ := header_text_fixed o hrv version wrap w _ la lines1 h1 hc1 hx1 hsp1
    (caseStable_reread o rv version wrap las hlow) (caseStable_reread o rv version wrap _ hlow)
    (by rw [lasOfRead_other]; exact otherStripped_otherRead _ hx.hol)
  exact ⟨lines1, la, lb, h1, h2⟩

end Lasio.Hc

#print axioms Lasio.Hc.writeSection_congr
#print axioms Lasio.Hc.headerLines_congr
#print axioms Lasio.Hc.standardize_text4_of_values
#print axioms Lasio.Hc.text4_of_rdExpected
#print axioms Lasio.Hc.caseStable_reread
#print axioms Lasio.Hc.header_text_fixed
#print axioms Lasio.Hc.header_text_fixed_after_one_cycle
