import DriverOps.Core
import DriverOps.NumLit
import DriverOps.Writer
import DriverOps.Reader
import DriverOps.Data
import DriverOps.Copy
import DriverOps.Curves
import DriverOps.Views
import DriverOps.Channel
import DriverOps.DataWrite
import DriverOps.WriteObj
import DriverOps.Transform
import DriverOps.ReadObj
/-
Line protocol: one JSON request per line on stdin, one JSON answer per line on stdout.
The driver only (de)serialises; every answer is computed by the definitions in `LasioModel`,
which are the same definitions the theorems in `LasioProofs` are about.
Ops are namespaced by prefix: "sec", "hl" (Core) and "<prefix>.<name>" for the other op files.
-/
open Lean Lasio

def handle (j : Json) : Except String Json := do
  let op ← (← j.getObjVal? "op").getStr?
  match op with
  | "sec" => handleSec j
  | "hl" => handleHl j
  | "ping" => pure (Json.str "pong")
  | _ =>
    match (op.splitOn ".").head? with
    | some "num" => handleNumLit op j
    | some "wr" => handleWriter op j
    | some "rd" => handleReader op j
    | some "dt" => handleData op j
    | some "cp" => handleCopy op j
    | some "cv" => handleCurves op j
    | some "vw" => handleViews op j
    | some "ch" => handleChannel op j
    | some "dw" => handleDataWrite op j
    | some "wo" => handleWriteObj op j
    | some "tf" => handleTransform op j
    | some "ro" => handleReadObj op j
    | _ => throw s!"unknown op {op}"

partial def loop (hin hout : IO.FS.Stream) : IO Unit := do
  let line ← hin.getLine
  if line.isEmpty then return ()
  let ans := match Json.parse line with
    | .error e => Json.mkObj [("error", Json.str s!"parse: {e}")]
    | .ok j => match handle j with
      | .ok r => r
      | .error e => Json.mkObj [("error", Json.str e)]
  hout.putStrLn ans.compress
  hout.flush
  loop hin hout

def main : IO Unit := do
  let hin ← IO.getStdin
  let hout ← IO.getStdout
  loop hin hout
  hout.flush
